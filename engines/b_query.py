"""Engine B `query-hist`: C02.  One GraphicalModel driven through a generated history of
queries (project / calculate_many_marginals / krondot / datavector / save+load through a
faulty in-memory file system); reference model = the explicit joint array.
The simulator owns: the history (which decides the cache state seen by every query),
attribute names and hash seed (greedy variable-elimination tie-breaks), the file system.
"""
import copy
import random
import traceback

import numpy as np

from sim import core, gen, refmodel
from sim.core import Violation, HarnessError
from sim.rng import SimRNG
from sim.simfs import SimFS
from engines import a_bp

NAME = 'query-hist'
STEP_MEANING = 'API operations executed against the model (each checked against the explicit joint)'
COMPONENTS = {
    'real': ['mbi.graphical_model.GraphicalModel (project, krondot, calculate_many_marginals, datavector, save, load, belief_propagation)',
             'mbi.graphical_model.variable_elimination(_logspace), greedy_order', 'mbi.inference.FactoredInference (source=estimate histories, MD)',
             'mbi.factor.Factor', 'mbi.junction_tree.JunctionTree', 'pickle', 'networkx'],
    'stub': ['builtin open as seen by mbi.graphical_model -> SimFS (in-memory, fault injecting)'],
}
RULES = {
    'C02': 'one run = one model (direct potentials or returned by estimate) + a seeded history of 4-10 operations; measure = digest of '
           '(hypergraph, operation-kind sequence with query shape class, cache-state sequence); non-trivial = history has an out-of-clique '
           'query and a cache-populating operation before a later in-clique query',
}
ASSUMPTIONS = {
    'C02': ['reference = total*softmax(sum of potentials) materialised on the full domain (<= 4096 cells) with plain numpy',
            '|theta| <= 10 because krondot works outside log space by construction',
            're-assigning model.potentials after the cache exists is not generated (outside the property\'s quantifier)',
            'bare-string attribute arguments are not generated (project documents list or tuple)'],
}
TIERS = {
    'C02': {'quick': dict(runs=32000, budget_s=400, hashseeds=4, minimise_s=60),
            'thorough': dict(runs=None, budget_s=600, hashseeds=16, minimise_s=240)},
}
RUN_LIMIT_S = {'C02': 60}


def gen_query(rnd, attrs, cliques, bias=None):
    n = len(attrs)
    r = rnd.random()
    if r < 0.04:
        q = []
    elif r < 0.10:
        q = list(attrs)
    elif r < 0.45 and cliques:
        cl = list(rnd.choice(cliques))
        q = rnd.sample(cl, rnd.randint(1, len(cl)))
    else:
        q = rnd.sample(attrs, rnd.randint(1, min(n, 4)))
    rnd.shuffle(q)
    return q


def gen_case(rnd, prop, tier):
    n = rnd.choice([2, 3, 3, 4, 4, 4, 5, 5, 6])
    attrs = gen.gen_names(rnd, n)
    sizes = gen.gen_sizes(rnd, n, max_size=4, max_joint=4096)
    cliques, kind = gen.gen_cliques(rnd, attrs, max_width=3)
    ninf = rnd.choice([0.0, 0.0, 0.0, 0.1])
    scale = rnd.choice([0.5, 1.0, 3.0])
    big = rnd.random() < 0.15       # parameters of magnitude ~100-250 per clique (their sum passes the range of exp()); no Kronecker queries then
    if big:
        scale = rnd.choice([60.0, 150.0])
    witness = {a: rnd.randrange(s) for a, s in zip(attrs, sizes)}
    pots = []
    for cl in cliques:
        shape = [sizes[attrs.index(a)] for a in cl]
        p = gen.gen_potential(rnd, shape, scale, ninf, [witness[a] for a in cl])
        lim = 250.0 if big else 10.0
        pots.append([max(-lim, min(lim, v)) if np.isfinite(v) else v for v in p])
    total = rnd.choice([1.0, 1.0, 10.0, 123.5, 1e4, 0.25])
    elim = a_bp.gen_elim(rnd, attrs)
    if isinstance(elim, dict):
        elim = None
    source = 'estimate' if (cliques and rnd.random() < 0.3 and not big) else 'direct'
    fsmode = rnd.choice(['clean', 'clean', 'clean', 'faulty'])
    ops = []
    for _ in range(rnd.randint(4, 10)):
        r = rnd.random()
        if r < 0.45:
            ops.append(['project', gen_query(rnd, attrs, cliques), rnd.choice(['tuple', 'list'])])
        elif r < 0.65:
            ops.append(['many', [gen_query(rnd, attrs, cliques) for _ in range(rnd.randint(1, 4))]])
        elif r < 0.77 and not big:
            ops.append(['krondot', rnd.getrandbits(32), [rnd.randint(1, 3) for _ in attrs]])
        elif r < 0.83:
            ops.append(['datavector', rnd.random() < 0.5])
        elif r < 0.855:
            ops.append(['synth', rnd.choice([1, 7, 60, 500]), rnd.choice(['round', 'round', 'sample']), rnd.getrandbits(32)])
        elif r < 0.90:
            # new parameters on the same object (in place / item assignment / another total), immediately followed by a bulk query
            ops.append(['reparam', rnd.choice(['iadd', 'assign', 'total']), rnd.getrandbits(32), [gen_query(rnd, attrs, cliques) for _ in range(rnd.randint(1, 3))]])
        else:
            fault = None
            if fsmode == 'faulty' and rnd.random() < 0.7:
                k = rnd.choice(['write-error', 'lost-tail', 'read-error'])
                fault = [k, rnd.choice([0, 1, 17, 200, 1000, 5000])] if k != 'read-error' else [k]
            ops.append(['saveload', fault])
    return dict(engine='B', attrs=attrs, sizes=sizes, cliques=cliques, kind=kind, pots=pots, total=total, elim=elim,
                source=source, fresh_names=rnd.random() < 0.3, est_solver=rnd.choice(['MD', 'MD', 'RDA', 'IG']), est_iters=rnd.choice([1, 3, 8]), est_seed=rnd.getrandbits(32), fsmode=fsmode, ops=ops, fold=rnd.choice(['harness', 'combine']), layout=rnd.choice(['C', 'C', 'F']), key_order=rnd.choice([None, None, 'reversed', 'sorted']))


def sample_view(case):
    c = dict(case)
    c['pots'] = '<%d potential tables>' % len(case['pots'])
    return c


def explicit_joint(model, attrs, sizes, total):
    pots = [(list(cl), np.asarray(model.potentials[cl].values, dtype=float)) for cl in model.cliques]
    for cl, arr in pots:
        if tuple(model.potentials[tuple(cl)].domain.attrs) != tuple(cl):
            raise HarnessError('potential axes differ from clique key')
    logp = refmodel.joint_logp(attrs, sizes, pots)
    return total * np.exp(logp - refmodel.lse(logp))


def make_model(mbi, case):
    if case['source'] == 'estimate':
        dom = mbi.Domain(case['attrs'], case['sizes'])
        rnd = random.Random(case['est_seed'])
        meas = []
        for cl in case['cliques']:
            n = int(np.prod([case['sizes'][case['attrs'].index(a)] for a in cl]))
            y = np.array([rnd.random() * case['total'] for _ in range(n)])
            meas.append((None, y, 1.0, tuple(cl)))
        eng = mbi.FactoredInference(dom, iters=case['est_iters'], elim_order=case['elim'])
        try:
            import contextlib, io
            with contextlib.redirect_stdout(io.StringIO()):
                model = eng.estimate(meas, total=case['total'], engine=case.get('est_solver', 'MD'))
        except Exception as e:
            raise Violation('no-exception', 'exception:estimate:%s' % type(e).__name__, 'estimate raised %s: %s' % (type(e).__name__, e))
        return model
    model, _ = a_bp.build(mbi, case, case['elim'], 'C02')
    model.potentials = a_bp.fold(mbi, case, model)
    return model


def in_clique(model, q):
    return any(set(q) <= set(cl) for cl in model.cliques)


def check_answer(op, q, ans, P, attrs, total, out, tag):
    want = refmodel.marginal_p(P, attrs, q)
    if tuple(ans.domain.attrs) != tuple(q):
        out.append(Violation('answer-order', 'answer-order:' + op, '%s(%s) returned axes %s (%s)' % (op, q, ans.domain.attrs, tag)).as_dict())
        return
    got = np.asarray(ans.values, dtype=float)
    if got.shape != want.shape:
        out.append(Violation('answer-shape', 'answer-shape:' + op, '%s(%s) returned shape %s, expected %s (%s)' % (op, q, got.shape, want.shape, tag)).as_dict())
        return
    if not refmodel.close(got, want, total, rtol=1e-6, atol_rel=1e-8):
        out.append(Violation('answer-value', 'answer-value:' + op, '%s(%s) differs from the explicit joint by %.3g (total %g, %s)' % (
            op, q, refmodel.maxerr(got, want), total, tag)).as_dict())
    elif abs(float(got.sum()) - total) > 1e-6 * total:
        out.append(Violation('answer-sum', 'answer-sum:' + op, '%s(%s) sums to %r, total %r (%s)' % (op, q, float(got.sum()), total, tag)).as_dict())


def run_case(case, prop):
    mbi = core.load_mbi()
    gm = mbi.graphical_model
    attrs, sizes, total = case['attrs'], case['sizes'], case['total']
    viol, faults, probes = [], {}, {}
    kinds, cache_states = [], []
    steps = 0
    seen_out, cached_then_in, nontrivial = False, False, False
    digests = []
    fs = SimFS()
    try:
        rng = SimRNG(random.Random(1), {})
        with rng.installed(), fs.installed(gm), np.errstate(all='ignore'):
            model = make_model(mbi, case)
            P = explicit_joint(model, attrs, sizes, total)
            if not np.all(np.isfinite(P)):
                raise HarnessError('reference joint not finite')
            populated_before = hasattr(model, 'marginals')
            for oi, op in enumerate(case['ops']):
                kind = op[0]
                cached = hasattr(model, 'marginals')
                cache_states.append(int(cached))
                tag = 'op#%d cache=%s' % (oi, 'yes' if cached else 'no')
                steps += 1
                try:
                    if kind == 'project':
                        q = list(op[1])
                        arg = tuple(q) if op[2] == 'tuple' else list(q)
                        ans = model.project(arg)
                        check_answer('project', q, ans, P, attrs, total, viol, tag)
                        digests.append(core.arr_digest(ans.values))
                        inc = in_clique(model, q)
                        kinds.append('p%d%s' % (len(q), 'i' if inc else 'o'))
                        if not inc:
                            seen_out = True
                            probes['out-of-clique-query'] = probes.get('out-of-clique-query', 0) + 1
                        if inc and cached:
                            cached_then_in = True
                        if len(q) == 0:
                            probes['empty-query'] = 1
                        if len(q) == len(attrs):
                            probes['full-query'] = 1
                    elif kind == 'many':
                        qs = [tuple(q) for q in op[1]]
                        res = model.calculate_many_marginals(qs)
                        for q in qs:
                            if q not in res:
                                viol.append(Violation('many-missing', 'many-missing', 'calculate_many_marginals gave no answer for %s' % (q,)).as_dict())
                                continue
                            check_answer('many', list(q), res[q], P, attrs, total, viol, tag)
                            digests.append(core.arr_digest(res[q].values))
                            if not in_clique(model, q):
                                seen_out = True
                        if not hasattr(model, 'marginals'):
                            probes['many-did-not-cache'] = 1
                        else:
                            faults['cache-populated'] = faults.get('cache-populated', 0) + 1
                        kinds.append('m%d' % len(qs))
                    elif kind == 'krondot':
                        r = random.Random(op[1])
                        mats = []
                        for a, rows in zip(attrs, op[2]):
                            nn = sizes[attrs.index(a)]
                            mats.append(np.array([[r.choice([-1.0, 0.0, 1.0, 2.0, 0.5]) for _ in range(nn)] for _ in range(rows)]))
                        ans = model.krondot(mats)
                        # krondot exponentiates the raw parameters and logZ by construction (see ASSUMPTIONS): an estimated model
                        # whose parameters left the range of exp() (|logZ| <= sum_c max|theta_c| + log|domain|) is outside the claim
                        tb = float(np.sum(np.log(np.asarray(sizes, dtype=float))))
                        for c in model.cliques:
                            t = np.asarray(model.potentials[c].values, dtype=float)
                            tb += float(np.max(np.abs(t[np.isfinite(t)]), initial=0))
                        if tb >= 600:
                            probes['krondot-outside-exp-range'] = probes.get('krondot-outside-exp-range', 0) + 1
                            kinds.append('k-')
                            continue
                        letters = 'abcdefghijklmnopqrstuvwxyz'
                        expr = ','.join(letters[i].upper() + letters[i] for i in range(len(attrs))) + ',' + letters[:len(attrs)] + '->' + letters[:len(attrs)].upper()
                        want = np.einsum(expr, *mats, P)
                        got = np.asarray(ans, dtype=float)
                        scale = float(np.prod([np.abs(m).sum(axis=1).max() for m in mats])) * total
                        if got.shape != want.shape:
                            viol.append(Violation('answer-shape', 'answer-shape:krondot', 'krondot shape %s, expected %s' % (got.shape, want.shape)).as_dict())
                        elif not np.all(np.isfinite(got)) or np.max(np.abs(got - want), initial=0) > 1e-7 * scale:
                            viol.append(Violation('answer-value', 'answer-value:krondot', 'krondot differs from (Q1 x ... x Qd) P by %.3g (scale %g, %s)' % (
                                refmodel.maxerr(got, want), scale, tag)).as_dict())
                        digests.append(core.arr_digest(got))
                        kinds.append('k')
                    elif kind == 'datavector':
                        ans = model.datavector(flatten=op[1])
                        got = np.asarray(ans, dtype=float)
                        want = P.reshape(-1) if op[1] else P
                        if got.shape != want.shape:
                            viol.append(Violation('answer-shape', 'answer-shape:datavector', 'datavector shape %s, expected %s' % (got.shape, want.shape)).as_dict())
                        elif not refmodel.close(got, want, total, rtol=1e-6):
                            viol.append(Violation('answer-value', 'answer-value:datavector', 'datavector differs from the explicit joint by %.3g (%s)' % (refmodel.maxerr(got, want), tag)).as_dict())
                        digests.append(core.arr_digest(got))
                        kinds.append('d')
                    elif kind == 'synth':
                        srng = SimRNG(random.Random(op[3]), {})
                        with srng.installed():
                            model.synthetic_data(rows=op[1], method=op[2])
                        faults['synthetic-data-between-queries'] = faults.get('synthetic-data-between-queries', 0) + 1
                        kinds.append('y' + op[2][0])
                    elif kind == 'reparam':
                        r = random.Random(op[2])
                        if op[1] == 'total':
                            new_total = total * r.choice([0.5, 2.0, 2.5])
                            model.total = new_total
                            P = P * (new_total / total)
                            total = new_total
                        else:
                            cl0 = model.cliques[r.randrange(len(model.cliques))]
                            shp = model.potentials[cl0].values.shape
                            delta = np.array([r.gauss(0, 1.0) for _ in range(int(np.prod(shp)))]).reshape(shp)
                            if op[1] == 'iadd':
                                model.potentials[cl0] += mbi.Factor(model.potentials[cl0].domain, delta)
                            else:
                                model.potentials[cl0] = mbi.Factor(model.potentials[cl0].domain, model.potentials[cl0].values + delta)
                            P = explicit_joint(model, attrs, sizes, total)
                        faults['parameters-changed-then-bulk-query'] = faults.get('parameters-changed-then-bulk-query', 0) + 1
                        qs = [tuple(q) for q in op[3]]
                        res = model.calculate_many_marginals(qs)
                        for q in qs:
                            if q in res:
                                check_answer('many', list(q), res[q], P, attrs, total, viol, tag + ' after %s' % op[1])
                        kinds.append('r' + op[1][0])
                    elif kind == 'saveload':
                        model = do_saveload(mbi, model, fs, op[1], oi, viol, faults, probes)
                        kinds.append('s' + (op[1][0][0] if op[1] else ''))
                except Violation:
                    raise
                except HarnessError:
                    raise
                except Exception as e:
                    tb = traceback.format_exc()
                    if core.REPO not in tb:
                        raise
                    viol.append(Violation('no-exception', 'exception:%s:%s' % (kind, type(e).__name__),
                                          '%s raised %s: %s (%s) op=%r' % (kind, type(e).__name__, e, tag, op)).as_dict())
            for k, v in fs.fired.items():
                faults[k] = faults.get(k, 0) + v
    except Violation as e:
        viol.append(e.as_dict())
    nontrivial = seen_out and cached_then_in
    if case['source'] == 'estimate':
        probes['model-from-estimate'] = 1
    measure = [a_bp.hypergraph(case), kinds, cache_states, case['source']]
    seen, uniq = set(), []
    for v in viol:
        if v['sig'] not in seen:
            seen.add(v['sig'])
            uniq.append(v)
    dg = core.digest([digests, [v['sig'] for v in uniq]])
    return dict(violations=uniq, measure=measure, nontrivial=nontrivial, faults=faults, probes=probes, steps=steps, digest=dg)


def do_saveload(mbi, model, fs, fault, oi, viol, faults, probes):
    path = 'model-%d.pkl' % oi
    GM = mbi.GraphicalModel
    fs.fault = fault if fault and fault[0] in ('write-error', 'lost-tail') else None
    raised = None
    before = dict(fs.fired)
    fired = lambda k: fs.fired.get(k, 0) - before.get(k, 0)
    try:
        GM.save(model, path)
    except OSError as e:
        raised = e
    finally:
        fs.fault = None
    size = len(fs.files.get(path, b''))
    if fault and fault[0] == 'write-error':
        if raised is None and fired('fs-write-error'):
            viol.append(Violation('save-swallowed-error', 'save-swallowed-error', 'save() returned normally although a write failed').as_dict())
        if raised is not None:
            # the in-memory model must be unaffected (checked by the following operations); a later clean save must round-trip
            GM.save(model, path)
        else:
            probes['fault-beyond-eof'] = probes.get('fault-beyond-eof', 0) + 1
    elif raised is not None:
        raise raised
    fs.fault = fault if fault and fault[0] == 'read-error' else None
    try:
        loaded = GM.load(path)
    except Exception as e:
        fs.fault = None
        if fault and (fault[0] == 'read-error' or (fault[0] == 'lost-tail' and fired('fs-lost-tail'))):
            probes['load-raised-after-fault'] = probes.get('load-raised-after-fault', 0) + 1
            return model        # allowed: load may fail after a fault; continue with the in-memory model
        raise
    fs.fault = None
    if fault and fault[0] == 'read-error':
        viol.append(Violation('load-ignored-read-error', 'load-ignored-read-error', 'load() returned a model although every read failed').as_dict())
    faults['save-load-roundtrip'] = faults.get('save-load-roundtrip', 0) + 1
    if hasattr(model, 'marginals') != hasattr(loaded, 'marginals'):
        probes['cache-state-changed-by-saveload'] = 1
    return loaded   # subsequent operations are checked against the same reference joint


# ----------------------------------------------------------------------------------- shrinking
def shrink(case, prop):
    ops = case['ops']
    n = len(ops)
    # ddmin-style: drop halves, then single operations
    if n > 2:
        for lo, hi in ((0, n // 2), (n // 2, n)):
            c = copy.deepcopy(case)
            c['ops'] = ops[:lo] + ops[hi:]
            yield c
    for k in range(n):
        c = copy.deepcopy(case)
        del c['ops'][k]
        yield c
    for k, op in enumerate(ops):
        if op[0] == 'many' and len(op[1]) > 1:
            for j in range(len(op[1])):
                c = copy.deepcopy(case)
                del c['ops'][k][1][j]
                yield c
        if op[0] == 'saveload' and op[1]:
            c = copy.deepcopy(case)
            c['ops'][k][1] = None
            yield c
        if op[0] == 'krondot' and any(r > 1 for r in op[2]):
            c = copy.deepcopy(case)
            c['ops'][k][2] = [1] * len(op[2])
            yield c
    if case['source'] != 'direct':
        c = copy.deepcopy(case)
        c['source'] = 'direct'
        yield c
    for k in range(len(case['cliques'])):
        yield gen.drop_index(case, 'cliques', k, also=('pots',))
    for a in case['attrs']:
        if len(case['attrs']) > 1:
            c = gen.drop_attr(case, a)
            keep = [k for k, cl in enumerate(c['cliques']) if len(cl) > 0]
            c['cliques'] = [c['cliques'][k] for k in keep]
            c['pots'] = [c['pots'][k] for k in keep]
            i = case['attrs'].index(a)
            if isinstance(c['elim'], list):
                c['elim'] = [x for x in c['elim'] if x != a]
            for op in c['ops']:
                if op[0] == 'project':
                    op[1] = [x for x in op[1] if x != a]
                elif op[0] == 'many':
                    op[1] = [[x for x in q if x != a] for q in op[1]]
                elif op[0] == 'reparam':
                    op[3] = [[x for x in q if x != a] for q in op[3]]
                elif op[0] == 'krondot':
                    del op[2][i]
            yield c
    for a, s in zip(case['attrs'], case['sizes']):
        for new in (1, 2):
            if s > new:
                yield gen.resize_attr(case, a, new)
    if case['elim'] is not None:
        c = copy.deepcopy(case)
        c['elim'] = None
        yield c
    if case['total'] != 1.0:
        c = copy.deepcopy(case)
        c['total'] = 1.0
        yield c
    rounded = [[(v if not np.isfinite(v) else float(round(v))) for v in p] for p in case['pots']]
    if rounded != case['pots']:
        c = copy.deepcopy(case)
        c['pots'] = rounded
        yield c
    if case.get('fold') != 'harness':
        c = copy.deepcopy(case)
        c['fold'] = 'harness'
        yield c

    def ren(c, m):
        if isinstance(case['elim'], list):
            c['elim'] = [m[x] for x in case['elim']]
        for op, op0 in zip(c['ops'], case['ops']):
            if op[0] == 'project':
                op[1] = [m[x] for x in op0[1]]
            elif op[0] == 'many':
                op[1] = [[m[x] for x in q] for q in op0[1]]
            elif op[0] == 'reparam':
                op[3] = [[m[x] for x in q] for q in op0[3]]
    c = gen.canon_names(case, extra=ren)
    if c is not None:
        yield c
