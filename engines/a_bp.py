"""Engine A `bp-sched`: C01 (exact inference under any schedule / elimination order / set order)
and C12 (junction-tree validity and message-schedule validity).

The simulator owns: the message schedule (a seeded linear extension installed in
model.message_order), the elimination order (None / permutation / int mode whose stochastic
draws come from the SimRNG, faithful or adversarial), attribute names (set order) and the
interpreter hash seed.  Oracle: brute-force joint on plain numpy arrays.
"""
import copy
import random

import numpy as np

from sim import core, gen, refmodel
from sim.core import Violation, HarnessError
from sim.rng import SimRNG

NAME = 'bp-sched'
STEP_MEANING = 'BP messages fired (C01) / tree nodes + schedule entries checked (C12)'
COMPONENTS = {
    'real': ['mbi.junction_tree.JunctionTree', 'mbi.graphical_model.GraphicalModel.belief_propagation',
             'mbi.factor.Factor', 'mbi.clique_vector.CliqueVector', 'mbi.domain.Domain', 'networkx', 'numpy', 'scipy.special.logsumexp'],
    'stub': ['np.random.choice -> SimRNG (int elimination-order mode only)'],
}
RULES = {
    'C01': 'one run = one seeded (domain, input cliques, potentials, total) driven through 2 elimination orders x up to 3 message '
           'schedules + constant shift; measure = digest of (clique hypergraph with attributes numbered in domain order, elimination '
           'orders actually used, message schedules actually installed); non-trivial = junction tree has >=2 nodes and (some installed '
           'schedule differs from the code\'s own or fill-in was needed)',
    'C12': 'one run = one seeded (domain, input cliques, elimination-order mode); measure = digest of (hypergraph, order mode, '
           'elimination order used, resulting node set); non-trivial = >=2 nodes and (fill-in needed or order is not the default)',
}
ASSUMPTIONS = {
    'C01': ['brute-force joint in float64 log space is the reference (own log-sum-exp)',
            'potentials given on input cliques are folded onto the model cliques either by harness numpy code or by CliqueVector.combine',
            'tolerance 1e-7 relative + 1e-8*total (1e-6*total for |theta| >= 1e4)'],
    'C12': ['axioms checked by independent code in sim/refmodel.py'],
}
TIERS = {
    'C01': {'quick': dict(runs=12000, budget_s=300, hashseeds=4, minimise_s=60),
            'thorough': dict(runs=None, budget_s=600, hashseeds=16, minimise_s=240)},
    'C12': {'quick': dict(runs=24000, budget_s=300, hashseeds=4, minimise_s=60),
            'thorough': dict(runs=None, budget_s=600, hashseeds=16, minimise_s=240)},
}
RUN_LIMIT_S = {'C01': 60, 'C12': 60}


# ----------------------------------------------------------------------------------- generation
def gen_elim(rnd, attrs):
    r = rnd.random()
    if r < 0.3:
        return None
    if r < 0.75:
        p = list(attrs)
        rnd.shuffle(p)
        return p
    pol = rnd.choice(['faithful', 'faithful', 'argmin', 'argmax', 'last', 'mixed'])
    rates = {} if pol == 'faithful' else ({pol: 1.0} if pol != 'mixed' else {'argmin': 0.3, 'last': 0.3})
    return {'int': rnd.choice([1, 2, 5]), 'rates': rates, 'seed': rnd.getrandbits(32)}


def gen_case(rnd, prop, tier):
    if prop == 'C12':
        n = rnd.choice([1, 2, 3, 3, 4, 4, 5, 5, 6, 6, 7, 8, 9])
        attrs = gen.gen_names(rnd, n)
        sizes = gen.gen_sizes(rnd, n, max_size=5, max_joint=10 ** 9)
        if rnd.random() < 0.3:
            # no tables are built for C12, so attribute sizes may be huge (cost-based choices must not change validity)
            sizes = [rnd.choice([1, 2, 3, 7, 50, 400, 1500, 1200, 10000]) for _ in range(n)]
        cliques, kind = gen.gen_cliques(rnd, attrs, max_width=4)
        return dict(engine='A', attrs=attrs, sizes=sizes, cliques=cliques, kind=kind, elims=[gen_elim(rnd, attrs)], fresh_names=rnd.random() < 0.3,
                    copy_mode=rnd.choice([None, None, None, 'pickle', 'deepcopy']))
    n = rnd.choice([1, 2, 3, 3, 4, 4, 4, 5, 5, 6])
    attrs = gen.gen_names(rnd, n)
    sizes = gen.gen_sizes(rnd, n, max_size=4, max_joint=4096)
    cliques, kind = gen.gen_cliques(rnd, attrs, max_width=3)
    scale = rnd.choice([1.0, 1.0, 1.0, 50.0, 1e4, 1e6])
    ninf = rnd.choice([0.0, 0.0, 0.15, 0.4])
    witness = {a: rnd.randrange(s) for a, s in zip(attrs, sizes)}
    pots = []
    for cl in cliques:
        shape = [sizes[attrs.index(a)] for a in cl]
        pots.append(gen.gen_potential(rnd, shape, scale, ninf, [witness[a] for a in cl]))
    total = rnd.choice([1e-3, 1.0, 1.0, 10.0, 123.5, 1e6])
    elims = [gen_elim(rnd, attrs), gen_elim(rnd, attrs)]
    scheds = [None, rnd.getrandbits(32), rnd.getrandbits(32)]
    shift = None
    if cliques and rnd.random() < 0.6:
        shift = [rnd.randrange(len(cliques)), rnd.choice([1.0, -7.5, 1e3, -1e6])]
    inplace = None
    if rnd.random() < 0.4:
        inplace = dict(seed=rnd.getrandbits(32), mode=rnd.choice(['iadd', 'assign']))
    return dict(engine='A', attrs=attrs, sizes=sizes, cliques=cliques, kind=kind, pots=pots, scale=scale, total=total,
                elims=elims, scheds=scheds, shift=shift, fold=rnd.choice(['harness', 'combine']), layout=rnd.choice(['C', 'C', 'C', 'F']), key_order=rnd.choice([None, None, 'reversed', 'sorted']), fresh_names=rnd.random() < 0.3, inplace=inplace,
                interleave=rnd.choice([None, None, 'project', 'datavector']))


def sample_view(case):
    c = dict(case)
    if 'pots' in c:
        c['pots'] = '<%d potential tables, scale %s>' % (len(case['pots']), case.get('scale'))
    return c


# ----------------------------------------------------------------------------------- helpers
def build(mbi, case, elim, prop, what='GraphicalModel'):
    """construct the model / tree under the SimRNG; returns (object, rng, elim actually passed)."""
    dom = mbi.Domain(case['attrs'], case['sizes'])
    cliques = [tuple(cl) for cl in case['cliques']]
    if case.get('fresh_names'):
        cliques = gen.fresh_cliques(cliques)
    if isinstance(elim, dict):
        rng = SimRNG(random.Random(elim['seed']), {'rates': elim.get('rates', {})})
        arg = int(elim['int'])
    else:
        rng = SimRNG(random.Random(0), {})
        arg = None if elim is None else list(elim)
    try:
        with rng.installed():
            if what == 'GraphicalModel':
                obj = mbi.GraphicalModel(dom, cliques, case.get('total', 1.0), elimination_order=arg)
            else:
                obj = mbi.junction_tree.JunctionTree(dom, cliques, arg)
    except HarnessError:
        raise
    except Exception as e:
        raise Violation('no-exception', 'exception:%s:%s' % (what, type(e).__name__),
                        '%s(%s cliques=%s, elimination_order=%r) raised %s: %s' % (what, dom, cliques, arg, type(e).__name__, e))
    return obj, rng


def fold(mbi, case, model, shift=None):
    """potentials on the input cliques -> CliqueVector on the model's cliques."""
    dom = model.domain
    pots = mbi.CliqueVector.zeros(dom, model.cliques)
    for k, cl in enumerate(case['cliques']):
        arr = gen.pot_array(case, k).copy()
        if shift is not None and shift[0] == k:
            arr = arr + shift[1]
        cl = tuple(cl)
        if case.get('fold') == 'combine':
            f = mbi.Factor(dom.project(cl), arr)
            pots.combine(mbi.CliqueVector({cl: f}))
        else:
            tgt = None
            for m in model.cliques:
                if set(cl) <= set(m):
                    tgt = m
                    break
            if tgt is None:
                raise Violation('jt-cover-clique', 'jt-cover-clique', 'input clique %s is in no model clique %s' % (cl, model.cliques))
            order = sorted(range(len(cl)), key=lambda i: tgt.index(cl[i]))
            a = np.transpose(arr, order) if len(cl) > 1 else arr
            shape = [dom.config[x] if x in cl else 1 for x in tgt]
            pots[tgt] = mbi.Factor(pots[tgt].domain, pots[tgt].values + a.reshape(shape))     # item assignment after construction
    if case.get('key_order') in ('reversed', 'sorted'):
        # the same parameter vector with its cliques inserted in another order than model.cliques (a CliqueVector is a dict: key order is
        # an accident of how the caller built it)
        ks = list(reversed(model.cliques)) if case['key_order'] == 'reversed' else sorted(model.cliques)
        pots = mbi.CliqueVector({m: pots[m] for m in ks})
    if case.get('layout') == 'F':
        # same tables, column-major memory: what Factor.transpose / project views and F-ordered caller arrays look like
        for m in model.cliques:
            if len(m) > 1:
                pots[m] = mbi.Factor(pots[m].domain, np.asfortranarray(pots[m].values))
    return pots


def hypergraph(case):
    ix = {a: i for i, a in enumerate(case['attrs'])}
    return sorted(sorted(ix[a] for a in cl) for cl in case['cliques'])


def tol_ok(a, b, total, scale):
    if scale >= 1e4:
        a, b = np.asarray(a, float), np.asarray(b, float)
        return a.shape == b.shape and bool(np.all(np.isfinite(a))) and bool(np.all(np.abs(a - b) <= 1e-6 * total))
    return refmodel.close(a, b, total)


# ----------------------------------------------------------------------------------- C12
def check_tree(case, tree, elim, faults, probes):
    """all junction-tree / schedule axioms on a constructed JunctionTree; returns list of Violation dicts."""
    out = []
    nodes = list(tree.maximal_cliques())
    edges = [(a, b) for a, b in tree.tree.edges()]
    for chk, msg in refmodel.jt_axioms(case['attrs'], case['cliques'], nodes, edges):
        out.append(Violation(chk, chk, msg + ' [elim=%r nodes=%s]' % (elim, nodes)).as_dict())
    if set(tree.tree.nodes()) != set(nodes):
        out.append(Violation('jt-nodes', 'jt-nodes', 'maximal_cliques() %s != tree nodes %s' % (nodes, list(tree.tree.nodes()))).as_dict())
    order = list(tree.mp_order())
    for chk, msg in refmodel.schedule_axioms(edges, order):
        out.append(Violation(chk, chk, msg).as_dict())
    sep = tree.separator_axes()
    for (i, j) in order:
        if (i, j) not in sep or set(sep[(i, j)]) != (set(i) & set(j)) or len(sep[(i, j)]) != len(set(sep[(i, j)])):
            out.append(Violation('jt-separator', 'jt-separator', 'separator_axes[%s,%s]=%s is not the intersection' % (i, j, sep.get((i, j)))).as_dict())
            break
    nb = tree.neighbors()
    want = {n: set() for n in nodes}
    for a, b in edges:
        if a in want and b in want:
            want[a].add(b)
            want[b].add(a)
    if {k: set(v) for k, v in nb.items()} != want:
        out.append(Violation('jt-neighbors', 'jt-neighbors', 'neighbors() disagrees with tree edges').as_dict())
    eo = list(tree.elimination_order)
    if sorted(eo) != sorted(case['attrs']):
        out.append(Violation('jt-elim-order', 'jt-elim-order', 'elimination_order %s is not a permutation of the attributes' % (eo,)).as_dict())
    if isinstance(elim, list) and eo != list(elim):
        out.append(Violation('jt-elim-order', 'jt-elim-given', 'given elimination order %s not used (%s)' % (elim, eo)).as_dict())
    return out, nodes, edges, order


def fill_in_needed(case, nodes):
    for n in nodes:
        for i in range(len(n)):
            for j in range(i + 1, len(n)):
                if not any(n[i] in cl and n[j] in cl for cl in case['cliques']):
                    return True
    return False


def run_c12(mbi, case):
    faults, probes, viol = {}, {}, []
    elim = case['elims'][0]
    steps = 0
    measure = None
    nontrivial = False
    try:
        tree, rng = build(mbi, case, elim, 'C12', what='JunctionTree')
        v, nodes, edges, order = check_tree(case, tree, elim, faults, probes)
        viol += v
        steps = len(nodes) + len(order)
        mode = 'none' if elim is None else ('int' if isinstance(elim, dict) else 'perm')
        faults['elim-' + mode] = 1
        for k, n in rng.fired.items():
            faults['rng-' + k] = n
        fill = fill_in_needed(case, nodes)
        ix = {a: i for i, a in enumerate(case['attrs'])}
        eo = [ix[a] for a in tree.elimination_order if a in ix]
        if fill:
            probes['fill-in'] = 1
        if len(nodes) >= 2 and not set.union(*[set(n) for n in nodes]) == set(nodes[0]) and any(not (set(a) & set(b)) for a, b in edges):
            probes['empty-separator'] = 1
        if isinstance(elim, dict):
            greedy = tree._greedy_order(stochastic=False)[0]
            if list(tree.elimination_order) != list(greedy):
                probes['int-mode-non-greedy-order'] = 1
        if 1 in case['sizes']:
            probes['size-1-attr'] = 1
        if max(case['sizes']) >= 400:
            probes['huge-attribute-sizes'] = 1
            if any(float(np.prod([case['sizes'][ix[x]] for x in set(a) & set(b)])) > 1e6 for a, b in edges if len(set(a) & set(b)) >= 2):
                probes['separator-table>1e6-cells'] = 1
        if not isinstance(elim, dict) and len(case['attrs']) <= 8:
            # the same clique list again over a domain with one more attribute that belongs to no clique
            ext = dict(case, attrs=case['attrs'] + ['zz_extra'], sizes=case['sizes'] + [2],
                       elims=[None if elim is None else list(elim) + ['zz_extra']])
            tree2, _ = build(mbi, ext, ext['elims'][0], 'C12', what='JunctionTree')
            v2, _, _, _ = check_tree(ext, tree2, ext['elims'][0], faults, probes)
            for x in v2:
                x['sig'] += ':second-construction-extended-domain'
                x['msg'] += ' [second JunctionTree in the same process: same cliques, domain extended by an attribute in no clique]'
            viol += v2
            faults['same-cliques-other-domain'] = 1
        if case.get('copy_mode'):
            # the constructed tree after a pickle round trip (what GraphicalModel.save / load do to it) or a deep copy: still the same valid tree
            import pickle
            try:
                tree3 = pickle.loads(pickle.dumps(tree)) if case['copy_mode'] == 'pickle' else copy.deepcopy(tree)
            except Exception as e:
                raise Violation('no-exception', 'exception:%s:%s' % (case['copy_mode'], type(e).__name__), '%s of a JunctionTree raised %s: %s' % (case['copy_mode'], type(e).__name__, e))
            v3, nodes3, edges3, order3 = check_tree(case, tree3, elim, faults, probes)
            und = lambda es: sorted(sorted([tuple(a), tuple(b)]) for a, b in es)
            if not v3 and (sorted(map(tuple, nodes3)) != sorted(map(tuple, nodes)) or und(edges3) != und(edges)):
                # (the schedule of the copy only has to be valid - checked above - not the same linear extension)
                v3 = [Violation('jt-copy-differs', 'jt-copy-differs', 'the copy has nodes %s and edges %s, the original %s and %s' % (nodes3, edges3, nodes, edges)).as_dict()]
            for x in v3:
                x['sig'] += ':after-' + case['copy_mode']
                x['msg'] += ' [the tree after a %s round trip]' % case['copy_mode']
            viol += v3
            faults['tree-' + case['copy_mode'] + '-roundtrip'] = 1
        measure = [hypergraph(case), mode, eo, sorted(sorted(ix[a] for a in n) for n in nodes), 'huge' if max(case['sizes']) >= 400 else 'small']
        nontrivial = len(nodes) >= 2 and (fill or elim is not None)
        # the GraphicalModel wrapper must expose the same tree
        if len(case['attrs']) <= 7 and isinstance(elim, (list, type(None))):
            model, _ = build(mbi, dict(case, total=1.0), elim, 'C12')
            if set(model.cliques) != set(nodes) or list(model.message_order) != list(model.junction_tree.mp_order()):
                viol.append(Violation('jt-model-wrapper', 'jt-model-wrapper', 'GraphicalModel exposes a different tree/schedule').as_dict())
            for chk, msg in refmodel.schedule_axioms(list(model.junction_tree.tree.edges()), list(model.message_order)):
                viol.append(Violation('model-' + chk, 'model-' + chk, msg).as_dict())
    except Violation as e:
        viol.append(e.as_dict())
    dg = core.digest([measure, [v['sig'] for v in viol]])
    return dict(violations=viol, measure=measure, nontrivial=nontrivial, faults=faults, probes=probes, steps=steps, digest=dg)


# ----------------------------------------------------------------------------------- C01
def run_c01(mbi, case, break_dep=None):
    faults, probes, viol = {}, {}, []
    attrs, sizes, total, scale = case['attrs'], case['sizes'], case['total'], case.get('scale', 1.0)
    pots_in = [(cl, gen.pot_array(case, k)) for k, cl in enumerate(case['cliques'])]
    logp = refmodel.joint_logp(attrs, sizes, pots_in)
    if not np.isfinite(refmodel.lse(logp)):
        raise HarnessError('generated potentials have no finite joint cell')
    logz_ref = refmodel.lse(logp)
    if any(np.isneginf(a).any() for _, a in pots_in):
        probes['neg-inf-potential'] = 1
    if scale >= 1e4 or max([np.max(np.abs(a[np.isfinite(a)]), initial=0) for _, a in pots_in] + [0]) > 700:
        probes['magnitude>700'] = 1
    if 1 in sizes:
        probes['size-1-attr'] = 1
    if len({tuple(sorted(cl)) for cl in case['cliques']}) < len(case['cliques']):
        probes['duplicate-clique'] = 1
    ix = {a: i for i, a in enumerate(attrs)}
    if any([ix[a] for a in cl] != sorted(ix[a] for a in cl) for cl in case['cliques']):
        probes['unordered-clique'] = 1
    steps = 0
    used_elims, used_scheds, digests = [], [], []
    nontrivial = False
    for ei, elim in enumerate(case['elims']):
        try:
            model, rng = build(mbi, case, elim, 'C01')
            for k, n in rng.fired.items():
                faults['rng-' + k] = faults.get('rng-' + k, 0) + n
            mode = 'none' if elim is None else ('int' if isinstance(elim, dict) else 'perm')
            faults['elim-' + mode] = faults.get('elim-' + mode, 0) + 1
            nodes = list(model.cliques)
            edges = list(model.junction_tree.tree.edges())
            fill = fill_in_needed(case, nodes)
            if fill:
                probes['fill-in'] = 1
            if any(not (set(a) & set(b)) for a, b in edges):
                probes['empty-separator'] = 1
            used_elims.append([ix[a] for a in model.elimination_order if a in ix])
            own = list(model.message_order)
            pots = fold(mbi, case, model)
            ref = {cl: refmodel.marginal(logp, attrs, total, cl) for cl in nodes}
            if case.get('interleave') and scale <= 50:
                # another query path runs on the same object (uncached) before exact inference is asked again
                model.potentials = pots
                keep = {cl: pots[cl].values.copy() for cl in pots}
                with np.errstate(all='ignore'):
                    if case['interleave'] == 'project':
                        model.project(tuple(attrs))
                    else:
                        model.datavector()
                faults['other-query-path-interleaved'] = faults.get('other-query-path-interleaved', 0) + 1
                if any(not np.array_equal(pots[cl].values, keep[cl], equal_nan=True) for cl in keep):
                    viol.append(Violation('bp-input-mutated', 'bp-input-mutated:' + case['interleave'], '%s() changed the model parameters that exact inference is then asked about' % case['interleave']).as_dict())
            for si, s in enumerate(case['scheds']):
                if s is None:
                    order = own
                else:
                    order = refmodel.linear_extension(edges, random.Random(s), break_at=break_dep)
                    faults['schedule-permutation'] = faults.get('schedule-permutation', 0) + 1
                model.message_order = order
                if order != own and len(nodes) >= 2:
                    nontrivial = True
                if fill and len(nodes) >= 2:
                    nontrivial = True
                nidx = {n: k for k, n in enumerate(sorted(nodes))}
                used_scheds.append([[nidx[a], nidx[b]] for a, b in order])
                tag = 'elim#%d/%s sched#%d/%s' % (ei, mode, si, 'own' if s is None else 'perm')
                viol += check_bp(mbi, model, pots, ref, logz_ref, total, scale, tag, digests)
                steps += len(order)
                if si == 0 and case.get('shift'):
                    pots2 = fold(mbi, case, model, shift=case['shift'])
                    faults['const-shift'] = faults.get('const-shift', 0) + 1
                    viol += check_bp(mbi, model, pots2, ref, None, total, max(scale, abs(case['shift'][1])), tag + ' shifted', digests)
                    steps += len(order)
            model.message_order = own
            ip = case.get('inplace')
            if ip and not viol:
                # the SAME potentials container is updated in place between two calls on the SAME model object
                r = random.Random(ip['seed'] + ei)
                cl0 = nodes[r.randrange(len(nodes))]
                delta = np.array([r.gauss(0, 1.0) for _ in range(int(np.prod(pots[cl0].values.shape)))]).reshape(pots[cl0].values.shape)
                if ip['mode'] == 'iadd':
                    pots[cl0] += mbi.Factor(pots[cl0].domain, delta)
                else:
                    pots[cl0] = mbi.Factor(pots[cl0].domain, pots[cl0].values + delta)
                logp2 = logp + refmodel.joint_logp(attrs, sizes, [(list(cl0), delta)])
                ref2 = {cl: refmodel.marginal(logp2, attrs, total, cl) for cl in nodes}
                faults['potentials-updated-in-place'] = faults.get('potentials-updated-in-place', 0) + 1
                viol += check_bp(mbi, model, pots, ref2, refmodel.lse(logp2), total, scale, 'elim#%d/%s after in-place update (%s) of the potentials on %s' % (ei, mode, ip['mode'], cl0), digests)
                steps += len(own)
        except Violation as e:
            viol.append(e.as_dict())
    measure = [hypergraph(case), used_elims, used_scheds]
    faults['attr-rename'] = 1 if case['attrs'] != sorted(case['attrs']) else 0
    dg = core.digest([digests, [v['sig'] for v in viol]])
    return dict(violations=viol, measure=measure, nontrivial=nontrivial, faults=faults, probes=probes, steps=steps, digest=dg)


def check_bp(mbi, model, pots, ref, logz_ref, total, scale, tag, digests):
    out = []
    snapshot = {cl: pots[cl].values.copy() for cl in pots}
    try:
        with np.errstate(all='ignore'):
            mu = model.belief_propagation(pots)
            lz = model.belief_propagation(pots, logZ=True) if logz_ref is not None else None
    except Exception as e:
        if core.REPO not in ''.join(__import__('traceback').format_exc()):
            raise
        return [Violation('no-exception', 'exception:belief_propagation:%s' % type(e).__name__,
                          'belief_propagation raised %s: %s (%s)' % (type(e).__name__, e, tag)).as_dict()]
    for cl in model.cliques:
        if cl not in mu:
            out.append(Violation('bp-missing', 'bp-missing', 'no marginal returned for clique %s (%s)' % (cl, tag)).as_dict())
            continue
        got = mu[cl].values
        digests.append(core.arr_digest(got))
        if tuple(mu[cl].domain.attrs) != tuple(cl):
            out.append(Violation('bp-axes', 'bp-axes', 'marginal for %s has axes %s (%s)' % (cl, mu[cl].domain.attrs, tag)).as_dict())
            continue
        if not np.all(np.isfinite(got)):
            out.append(Violation('bp-finite', 'bp-finite', 'non-finite marginal on %s (%s)' % (cl, tag)).as_dict())
        elif not tol_ok(got, ref[cl], total, scale):
            out.append(Violation('bp-marginal', 'bp-marginal', 'marginal on %s differs from brute force by %.3g (total %g, %s)' % (
                cl, refmodel.maxerr(got, ref[cl]), total, tag), {'clique': list(cl)}).as_dict())
    if lz is not None:
        if not np.isfinite(lz) or abs(lz - logz_ref) > 1e-9 * max(1.0, abs(logz_ref)):
            out.append(Violation('bp-logZ', 'bp-logZ', 'logZ %r != %r (%s)' % (lz, logz_ref, tag)).as_dict())
    for cl in snapshot:
        a, b = pots[cl].values, snapshot[cl]
        if not np.array_equal(a, b, equal_nan=True):
            out.append(Violation('bp-input-mutated', 'bp-input-mutated', 'belief_propagation changed its input potentials on %s (%s)' % (cl, tag)).as_dict())
            break
    # report at most one violation per check id for this call
    seen, uniq = set(), []
    for v in out:
        if v['sig'] not in seen:
            seen.add(v['sig'])
            uniq.append(v)
    return uniq


def run_case(case, prop, **kw):
    mbi = core.load_mbi()
    if prop == 'C12':
        return run_c12(mbi, case)
    return run_c01(mbi, case, **kw)


# ----------------------------------------------------------------------------------- shrinking
def shrink(case, prop):
    # fewer orders / schedules first
    if len(case['elims']) > 1:
        for k in range(len(case['elims'])):
            c = copy.deepcopy(case)
            c['elims'] = [case['elims'][k]]
            yield c
    if case.get('fresh_names'):
        c = copy.deepcopy(case)
        c['fresh_names'] = False
        yield c
    if prop == 'C01' and case.get('interleave'):
        c = copy.deepcopy(case)
        c['interleave'] = None
        yield c
    if prop == 'C01' and case.get('inplace'):
        c = copy.deepcopy(case)
        c['inplace'] = None
        yield c
    if prop == 'C01':
        if len(case['scheds']) > 1:
            for k in range(len(case['scheds'])):
                c = copy.deepcopy(case)
                c['scheds'] = [case['scheds'][k]]
                yield c
        if case.get('shift'):
            c = copy.deepcopy(case)
            c['shift'] = None
            yield c
    for k in range(len(case['cliques'])):
        c = gen.drop_index(case, 'cliques', k, also=('pots',))
        if c.get('shift'):
            if c['shift'][0] == k:
                c['shift'] = None
            elif c['shift'][0] > k:
                c['shift'][0] -= 1
        yield c
    for a in case['attrs']:
        if len(case['attrs']) > 1:
            c = gen.drop_attr(case, a)
            keep = [k for k, cl in enumerate(c['cliques']) if len(cl) > 0]
            if len(keep) != len(c['cliques']):
                if c.get('shift'):
                    c['shift'] = None
                c['cliques'] = [c['cliques'][k] for k in keep]
                if c.get('pots') is not None:
                    c['pots'] = [c['pots'][k] for k in keep]
            c['elims'] = [[x for x in e if x != a] if isinstance(e, list) else e for e in c['elims']]
            yield c
    for a, s in zip(case['attrs'], case['sizes']):
        for new in (1, 2):
            if s > new:
                yield gen.resize_attr(case, a, new)
    for k, e in enumerate(case['elims']):
        if e is not None:
            c = copy.deepcopy(case)
            c['elims'][k] = None
            yield c
        if isinstance(e, dict) and e.get('rates'):
            c = copy.deepcopy(case)
            c['elims'][k]['rates'] = {}
            yield c
    if prop == 'C01':
        for k, s in enumerate(case['scheds']):
            if s is not None:
                c = copy.deepcopy(case)
                c['scheds'][k] = None
                yield c
        if case.get('fold') != 'harness':
            c = copy.deepcopy(case)
            c['fold'] = 'harness'
            yield c
        if case['total'] != 1.0:
            c = copy.deepcopy(case)
            c['total'] = 1.0
            yield c
        rounded = [[(v if not np.isfinite(v) else float(np.clip(round(v), -3, 3))) for v in p] for p in case['pots']]
        if rounded != case['pots']:
            c = copy.deepcopy(case)
            c['pots'] = rounded
            c['scale'] = 1.0
            yield c
        noinf = [[(0.0 if v == float('-inf') else v) for v in p] for p in case['pots']]
        if noinf != case['pots']:
            c = copy.deepcopy(case)
            c['pots'] = noinf
            yield c
    # sort attributes inside cliques, canonical names
    srt = [sorted(cl, key=case['attrs'].index) for cl in case['cliques']]
    if srt != case['cliques'] and prop == 'C12':
        c = copy.deepcopy(case)
        c['cliques'] = srt
        yield c

    def ren(c, m):
        c['elims'] = [[m[x] for x in e] if isinstance(e, list) else e for e in case['elims']]
    c = gen.canon_names(case, extra=ren)
    if c is not None:
        yield c
