"""Engine F `local-oracle`: C16 (approximate marginal oracles: normalised always, exact on acyclic
structures, from cold and from warm messages) and C18 (LocalInference: valid output for every oracle,
no worse than the uniform start, feasible with the convex oracle, exact on disjoint cliques).

The simulator owns: the call history on one oracle object (messages persist between calls; total and
sweep count change between calls), the GBP sweep tie-order (permutation inside equal-length blocks of
RegionGraph.message_order - the freedom a different hash seed exercises), attribute names / hash
seed, and for C18 the estimator reuse history and iteration counts that select the restart /
damping / post-iteration control paths.
"""
import contextlib
import copy
import io
import random
import traceback

import numpy as np
from scipy import sparse

from sim import core, gen, refmodel
from sim.core import Violation, HarnessError

NAME = 'local-oracle'
STEP_MEANING = 'oracle sweeps (C16) / estimator iterations incl. restarts and post-iterations as seen by the callback (C18)'
COMPONENTS = {
    'real': ['mbi.region_graph.RegionGraph (build_graph, generalized_belief_propagation, hazan_peng_shashua, primal_feasibility, project)',
             'mbi.factor_graph.FactorGraph (loopy_belief_propagation, clique_marginals, project)', 'mbi.local_inference.LocalInference', 'mbi.factor.Factor', 'mbi.clique_vector.CliqueVector'],
    'stub': ['none (cvxopt absent: FactorGraph(convex=True) / pairwise-convex are outside the property and never constructed)'],
}
RULES = {
    'C16': 'one run = one oracle object (RegionGraph(convex=False) or FactorGraph(convex=False)) + 1-4 belief_propagation calls with unrelated potentials, changing total and sweep counts, '
           'optionally a permuted tie-order; measure = digest of (oracle kind, structure class + hypergraph, call-history shape (sweeps class, total changed), tie-order permuted?); '
           'non-trivial = >= 2 calls on the object (warm messages) or a permuted tie-order, on a structure with >= 2 cliques',
    'C18': 'one run = one LocalInference object x oracle kind x 1-2 estimate calls (iteration counts 1..300); measure = digest of (oracle, structure class + hypergraph, history shape, '
           'control-path vector (restarts, damping increases, post-iterations)); non-trivial = >= 2 calls on one estimator or >= 1 restart/damping/post-iteration event',
}
ASSUMPTIONS = {
    'C16': ['finite potentials only (the property does not quantify over structural zeros for these oracles)',
            'exactness after 60+10*#cliques sweeps (GBP damps by 1/2 per sweep) resp. 2*#cliques+4 sweeps (loopy BP, >= diameter+2), tolerance 1e-6*total',
            'potentials are placed on the maximal (input) cliques; intersection regions get zero potential'],
    'C18': ['loss recomputed by the harness from model.project answers', 'exactness clause only for identity queries on pairwise-disjoint cliques, against the closed-form simplex projection of the weighted mean answer',
            'feasibility clause uses the estimator\'s own measure model.primal_feasibility(marginals) < 1.0'],
}
TIERS = {
    'C16': {'quick': dict(runs=2400, budget_s=600, hashseeds=4, minimise_s=90),
            'thorough': dict(runs=None, budget_s=600, hashseeds=16, minimise_s=240)},
    'C18': {'quick': dict(runs=640, budget_s=360, hashseeds=4, minimise_s=120, grace_s=240),
            'thorough': dict(runs=None, budget_s=900, hashseeds=16, minimise_s=300, grace_s=300)},
}
RUN_LIMIT_S = {'C16': 90, 'C18': 240}


# ----------------------------------------------------------------------------------- structures
def gen_jt_cliques(rnd, attrs, max_width=3):
    """clique set satisfying running intersection: nodes of a random junction tree, built by attaching each new
    clique to an existing one through a non-empty proper subset (separator) plus fresh attributes."""
    pool = list(attrs)
    rnd.shuffle(pool)
    w = rnd.randint(1, min(max_width, len(pool)))
    cliques = [pool[:w]]
    pool = pool[w:]
    while pool:
        host = rnd.choice(cliques)
        k = rnd.randint(1, max(1, min(len(host), max_width - 1)))
        if k == len(host) and len(host) >= max_width:
            k = len(host) - 1
        sep = rnd.sample(host, k) if k > 0 else []
        nf = rnd.randint(1, max(1, min(len(pool), max_width - len(sep))))
        new = sep + pool[:nf]
        pool = pool[nf:]
        cliques.append(new)
    for c in cliques:
        rnd.shuffle(c)
    rnd.shuffle(cliques)
    return cliques


def gen_windows(rnd, attrs):
    """sliding windows of width w with step 1..w-1: separators nested up to w-1 deep (deep region graphs)."""
    pool = list(attrs)
    rnd.shuffle(pool)
    w = min(len(pool), rnd.choice([2, 3, 4, 4]))
    step = rnd.choice([1, 1, max(1, w - 1)])
    cliques, i = [], 0
    while True:
        cliques.append(pool[i:i + w])
        if i + w >= len(pool):
            break
        i += step
    for c in cliques:
        rnd.shuffle(c)
    rnd.shuffle(cliques)
    return cliques


def gen_tree_factor_graph(rnd, attrs, max_width=3):
    """cliques whose factor graph (variables + cliques) is a forest: each new clique shares exactly one variable."""
    pool = list(attrs)
    rnd.shuffle(pool)
    w = rnd.randint(1, min(max_width, len(pool)))
    cliques = [pool[:w]]
    used = list(pool[:w])
    pool = pool[w:]
    while pool:
        nf = rnd.randint(1, max(1, min(len(pool), max_width - 1)))
        if rnd.random() < 0.12:
            new = pool[:nf]                  # a separate component
        else:
            new = [rnd.choice(used)] + pool[:nf]
        used += pool[:nf]
        pool = pool[nf:]
        cliques.append(new)
    if rnd.random() < 0.3:
        one = [rnd.choice(used)]
        if one not in cliques:
            cliques.append(one)              # a singleton factor keeps the graph a tree
    for c in cliques:
        rnd.shuffle(c)
    rnd.shuffle(cliques)
    return cliques


def gen_case(rnd, prop, tier):
    n = rnd.choice([2, 3, 3, 4, 4, 5, 5, 6]) if prop != 'C16' else rnd.choice([2, 3, 3, 4, 4, 5, 5, 6, 7, 8])
    attrs = gen.gen_names(rnd, n)
    sizes = gen.gen_sizes(rnd, n, max_size=2 if n >= 7 else (3 if n >= 5 else 4), max_joint=2048, p_one=0.05)
    if prop == 'C16':
        oracle = rnd.choice(['gbp', 'gbp', 'loopy'])
        r = rnd.random()
        if r < 0.6:
            structure = 'acyclic'
            if oracle == 'gbp':
                cliques = gen_windows(rnd, attrs) if rnd.random() < (0.6 if n >= 6 else 0.3) else gen_jt_cliques(rnd, attrs, max_width=rnd.choice([3, 3, 4]))
            else:
                cliques = gen_tree_factor_graph(rnd, attrs)
        else:
            structure = 'arbitrary'
            cliques, _ = gen.gen_cliques(rnd, attrs, max_width=3)
            cliques = [c for c in cliques if c] or [[attrs[0]]]
            if oracle == 'gbp':     # the constructor keeps maximal cliques only; duplicates in other attribute order are not generated
                seen, uniq = set(), []
                for c in cliques:
                    if frozenset(c) not in seen:
                        seen.add(frozenset(c))
                        uniq.append(c)
                cliques = uniq
            else:
                seen, uniq = set(), []
                for c in cliques:
                    if tuple(c) not in seen:
                        seen.add(tuple(c))
                        uniq.append(c)
                cliques = uniq
        calls = []
        for k in range(rnd.choice([1, 2, 3, 3, 4])):
            calls.append(dict(seed=rnd.getrandbits(32), scale=rnd.choice([0.3, 1.0, 3.0, 8.0, 8.0, 60.0, 400.0]), total=rnd.choice([1.0, 1.0, 10.0, 250.0, 1e4]),
                              sweeps=rnd.choice(['enough', 'enough', 'split', 1, 2, 5]), sub=rnd.random() < 0.25,
                              damp_up=(oracle == 'gbp' and k > 0 and rnd.random() < 0.2), ninf=0.0,
                              restore=(k > 0 and rnd.random() < 0.25)))
        if rnd.random() < 0.12:
            calls[-1]['ninf'] = rnd.choice([0.1, 0.25])      # structural zeros (-inf entries) in the last call's potentials; one joint cell stays possible
        return dict(engine='F', attrs=attrs, sizes=sizes, cliques=cliques, oracle=oracle, structure=structure, calls=calls,
                    damping=rnd.choice([0.5, 0.5, 0.5, 0.5, 0.25, 0.75, 0.85]) if oracle == 'gbp' else None,
                    clone_at=rnd.randrange(len(calls)) if rnd.random() < 0.2 else None,
                    total0=rnd.choice([1.0, 10.0, 100.0]), tie=rnd.choice([None, None, rnd.getrandbits(32)]), fresh_names=rnd.random() < 0.35,
                    decoy=rnd.random() < 0.3)
    # C18
    oracle = rnd.choice(['convex', 'approx', 'pairwise'])
    disjoint = rnd.random() < 0.35
    if disjoint:
        pool = list(attrs)
        rnd.shuffle(pool)
        cliques = []
        while pool:
            w = rnd.randint(1, min(2 if oracle == 'pairwise' else 3, len(pool)))
            cliques.append(pool[:w])
            pool = pool[w:]
        if len(cliques) > 1 and rnd.random() < 0.3:
            cliques.pop()
    else:
        cliques, _ = gen.gen_cliques(rnd, attrs, max_width=3)
        cliques = [c for c in cliques if c] or [[attrs[0]]]
        if n >= 4 and rnd.random() < 0.3:
            # region graphs of three and more levels: a measured clique, a measured sub-clique of it, a measured attribute of that,
            # and a clique that meets the chain in one attribute only (an intermediate parent next to an unrelated parent)
            abc = rnd.sample(attrs, 3)
            rest = [a for a in attrs if a not in abc]
            cliques = [abc, abc[:2], [abc[0]], [abc[0], rest[0]]] + ([[abc[1], rest[-1]]] if rnd.random() < 0.5 else [])
            for c in cliques:
                rnd.shuffle(c)
            rnd.shuffle(cliques)
    pool = []
    for cl in cliques:
        for _ in range(rnd.choice([1, 1, 2]) if not disjoint else rnd.choice([1, 1, 2])):
            pool.append(dict(proj=list(cl), sigma=rnd.choice([0.5, 1.0, 2.0, 5.0]), seed=rnd.getrandbits(32)))
    total_true = rnd.choice([10.0, 100.0, 1000.0])
    calls = []
    for k in range(rnd.choice([1, 1, 2])):
        sub = sorted(rnd.sample(range(len(pool)), rnd.randint(1, len(pool)))) if (k > 0 or rnd.random() < 0.3) else list(range(len(pool)))
        if k > 0 and rnd.random() < 0.5:
            sub = list(calls[-1]['sub'])        # the same measurement (clique) list again, typically with another total
        if disjoint:
            sub = list(range(len(pool)))
        calls.append(dict(sub=sub, total=rnd.choice([None, total_true, total_true, 2 * total_true, 0.5 * total_true]), iters=rnd.choice([1, 2, 3, 5, 10, 30, 60, 120, 300])))
    return dict(engine='F', attrs=attrs, sizes=sizes, cliques=cliques, oracle=oracle, disjoint=disjoint, pool=pool, calls=calls, warm=rnd.random() < 0.4,
                total_true=total_true, truth_seed=rnd.getrandbits(32))


def sample_view(case):
    return case


# ----------------------------------------------------------------------------------- C16
def guard(fn, what):
    try:
        with contextlib.redirect_stdout(io.StringIO()), np.errstate(all='ignore'):
            return fn(), None
    except HarnessError:
        raise
    except Exception as e:
        tb = traceback.format_exc()
        if core.REPO not in tb:
            raise
        where = [ln.strip() for ln in tb.splitlines() if 'File "%s' % core.REPO in ln]
        fn_name = where[-1].split(' in ')[-1] if where else '?'
        return None, Violation('no-exception', 'exception:%s:%s:%s' % (what, type(e).__name__, fn_name), '%s raised %s: %s' % (what, type(e).__name__, str(e)[:200]))


def permute_ties(order, seed):
    rnd = random.Random(seed)
    out, i = [], 0
    while i < len(order):
        j = i
        while j < len(order) and len(order[j][0]) == len(order[i][0]):
            j += 1
        block = sorted(order[i:j])
        rnd.shuffle(block)
        out += block
        i = j
    return out


def _depth(obj, r):
    ch = obj.children.get(r, [])
    return 0 if not ch else 1 + max(_depth(obj, c) for c in ch)


def run_c16(mbi, case):
    attrs, sizes = case['attrs'], case['sizes']
    dom = mbi.Domain(attrs, sizes)
    cliques = [tuple(c) for c in case['cliques']]
    viol, faults, probes = [], {}, {}
    if case.get('fresh_names'):
        cliques = gen.fresh_cliques(cliques)        # equal names, distinct string objects
        if any(len(a) > 1 for a in attrs):
            faults['clique-names-distinct-objects'] = 1
    steps = 0
    kind = case['oracle']
    digests = []
    hist = []
    if kind == 'gbp':
        kw = {}
        if case.get('damping') not in (None, 0.5):
            kw['damping'] = case['damping']         # a constructor knob of the oracle (LocalInference raises it on the object later)
            faults['non-default-damping'] = 1
        if case['calls'][0]['seed'] % 4 == 0:
            kw['minimal'] = False                   # the saturated region graph (constructor knob); derived from a value the case already holds
            faults['saturated-region-graph(minimal=False)'] = 1
        obj, v = guard(lambda: mbi.RegionGraph(dom, cliques, case['total0'], convex=False, iters=1, **kw), 'RegionGraph')
    else:
        obj, v = guard(lambda: mbi.FactorGraph(dom, cliques, case['total0'], convex=False, iters=1), 'FactorGraph')
    if v:
        return dict(violations=[v.as_dict()], measure=[kind, 'ctor-failed'], nontrivial=False, faults=faults, probes=probes, steps=0, digest=core.digest(v.sig))
    tie = False
    if kind == 'gbp' and case.get('tie') is not None:
        new = permute_ties(list(obj.message_order), case['tie'])
        if new != list(obj.message_order):
            obj.message_order = new
            tie = True
            faults['tie-order-permutation'] = 1
    maximal = [c for c in cliques if not any(set(c) < set(d) for d in cliques)]
    ncl = len(obj.cliques)
    kept = []
    big_scale = 0.0
    if kind == 'loopy' and case.get('decoy'):
        # another oracle object over the same attribute names with another clique set is built (and stays alive) in between
        decoy, _ = guard(lambda: mbi.FactorGraph(dom, [(a,) for a in attrs], 1.0, convex=False, iters=1), 'FactorGraph')
        faults['second-oracle-object-same-attributes'] = 1
    saved_messages = None
    for ci, call in enumerate(case['calls']):
        r = random.Random(call['seed'])
        total = call['total']
        pots = {}
        pots_in = []
        rw = random.Random(call['seed'] + 17)
        witness = {a: rw.randrange(dom.config[a]) for a in attrs}
        for cl in obj.cliques:
            shape = [dom.config[a] for a in cl]
            on = (tuple(cl) in [tuple(m) for m in maximal]) or kind == 'loopy' or call['sub']
            arr = np.array([r.gauss(0, call['scale']) if on else 0.0 for _ in range(int(np.prod(shape)))]).reshape(shape)
            if call.get('ninf') and on and arr.size > 1:
                wit = tuple(witness[a] for a in cl)
                mask = np.array([r.random() < call['ninf'] for _ in range(arr.size)]).reshape(shape)
                mask[wit] = False
                arr[mask] = -np.inf
                if mask.any():
                    faults['minus-inf-potentials'] = faults.get('minus-inf-potentials', 0) + 1
            pots[cl] = mbi.Factor(dom.project(cl), arr.copy())
            pots_in.append((list(cl), arr))
        if call['sub'] and kind == 'gbp' and len(obj.cliques) > len(maximal):
            probes['potential-on-intersection-region'] = probes.get('potential-on-intersection-region', 0) + 1
        theta = mbi.CliqueVector(pots)
        big_scale = max(big_scale, call['scale'])
        theta_before = {cl: pots[cl].values.copy() for cl in pots}
        if obj.total != total:
            faults['total-changed-between-calls'] = faults.get('total-changed-between-calls', 0) + (1 if ci > 0 else 0)
        obj.total = total
        if case.get('clone_at') == ci:
            # the caller keeps the oracle it has and continues on a deep copy (a snapshot taken before trying other totals / sweep
            # counts): the copy is an oracle in its own right, the original stays alive next to it
            original = obj
            obj, v = guard(lambda: copy.deepcopy(original), 'deepcopy:' + kind)
            if v:
                viol.append(v.as_dict())
                break
            faults['continued-on-deep-copy'] = 1
        if call.get('restore') and ci > 0 and saved_messages is not None:
            # what LocalInference.mirror_descent_auto does on a restart: the messages saved before the previous call are put back
            obj.messages = saved_messages
            faults['messages-restored-to-earlier-snapshot'] = faults.get('messages-restored-to-earlier-snapshot', 0) + 1
        saved_messages, v = guard(lambda: copy.deepcopy(obj.messages), 'deepcopy(messages):' + kind)
        if v:
            viol.append(v.as_dict())
            break
        if call.get('damp_up') and hasattr(obj, 'damping'):
            obj.damping = (0.9 + obj.damping) / 2.0         # what LocalInference.mirror_descent_auto does to the oracle it holds
            faults['damping-raised-between-calls'] = faults.get('damping-raised-between-calls', 0) + 1
        enough = (60 + 10 * ncl) if kind == 'gbp' else (2 * ncl + 4)
        if kind == 'gbp' and 0.5 < float(getattr(obj, 'damping', 0.5)) < 1:
            # a damped update m <- rho*m + (1-rho)*new contracts by rho per sweep: scale the sweep count so that an implementation that
            # honours the knob is given as many halvings as the default 0.5 gets
            enough = int(np.ceil(enough * np.log(0.5) / np.log(float(obj.damping))))
        split = call['sweeps'] == 'split'
        sweeps = enough if call['sweeps'] in ('enough', 'split') else call['sweeps']
        if ci > 0:
            faults['warm-message-carryover'] = faults.get('warm-message-carryover', 0) + 1
        if split:
            # the same potentials object again and again, one sweep per call: sweeps accumulate through the warm messages
            obj.iters = 1
            v = None
            for _ in range(sweeps):
                mu, v = guard(lambda: obj.belief_propagation(theta), 'belief_propagation:' + kind)
                if v:
                    break
            faults['same-potentials-object-many-calls'] = faults.get('same-potentials-object-many-calls', 0) + 1
        else:
            obj.iters = sweeps
            mu, v = guard(lambda: obj.belief_propagation(theta), 'belief_propagation:' + kind)
        steps += sweeps
        has_ninf = any(np.isneginf(a_).any() for _, a_ in pots_in)
        tag = 'oracle=%s call#%d sweeps=%d total=%g %s%s%s' % (kind, ci, sweeps, total, 'warm' if ci else 'cold', ' tie-permuted' if tie else '', ' minus-inf-potentials' if has_ninf else '')
        hist.append((sweeps if sweeps < 6 else ('split' if split else 'enough'), ci > 0 and case['calls'][ci - 1]['total'] != total))
        if v:
            viol.append(v.as_dict())
            break
        if any(not np.array_equal(pots[cl].values, theta_before[cl]) for cl in pots):
            viol.append(Violation('c16-input-mutated', 'c16-input-mutated:' + kind, 'belief_propagation changed the potentials it was given (%s)' % tag).as_dict())
            break
        bad = False
        for cl in obj.cliques:
            if cl not in mu:
                viol.append(Violation('c16-missing', 'c16-missing:' + kind, 'no pseudo-marginal for %s (%s)' % (cl, tag)).as_dict())
                bad = True
                break
            arr = np.asarray(mu[cl].values, dtype=float)
            digests.append(core.arr_digest(arr))
            if not np.all(np.isfinite(arr)) or arr.min() < 0:
                viol.append(Violation('c16-valid', 'c16-valid:' + kind + (':minus-inf' if has_ninf else ''), 'pseudo-marginal on %s has non-finite or negative entries (%s)' % (cl, tag)).as_dict())
                bad = True
                break
            if abs(arr.sum() - total) > (1e-9 if big_scale <= 8 else 1e-6) * total:     # beliefs of magnitude ~1e3 and more cannot be normalised to 1e-9
                viol.append(Violation('c16-normalised', 'c16-normalised:' + kind + (':minus-inf' if has_ninf else ''), 'pseudo-marginal on %s sums to %r, total is %r (%s)' % (cl, float(arr.sum()), total, tag)).as_dict())
                bad = True
                break
        if bad:
            break
        for (ck, old_mu, old_dg) in kept:
            now = [core.arr_digest_exact(old_mu[c2].values) for c2 in sorted(old_mu)]
            if now != old_dg:
                viol.append(Violation('c16-result-mutated', 'c16-result-mutated:' + kind, 'the pseudo-marginals returned by call #%d changed when call #%d ran on the same oracle object (%s)' % (ck, ci, tag)).as_dict())
                bad = True
                break
        if bad:
            break
        kept.append((ci, mu, [core.arr_digest_exact(mu[c2].values) for c2 in sorted(mu)]))
        if case['structure'] == 'acyclic' and call['sweeps'] in ('enough', 'split'):
            logp = refmodel.joint_logp(attrs, sizes, pots_in)
            for cl in obj.cliques:
                want = refmodel.marginal(logp, attrs, total, cl)
                got = np.asarray(mu[cl].values, dtype=float)
                if tuple(mu[cl].domain.attrs) != tuple(cl) or got.shape != want.shape or np.max(np.abs(got - want)) > 1e-6 * total:
                    viol.append(Violation('c16-exact', 'c16-exact:%s%s%s' % (kind, ':sub-region-potentials' if call['sub'] and kind == 'gbp' else '', ':minus-inf' if has_ninf else ''),
                                          'acyclic structure %s: pseudo-marginal on %s differs from the exact marginal by %.3g (total %g, %s)' % (
                                              cliques, cl, refmodel.maxerr(got, want), total, tag)).as_dict())
                    bad = True
                    break
            probes['exactness-checked'] = probes.get('exactness-checked', 0) + 1
            if ci > 0:
                probes['exactness-from-warm-messages'] = probes.get('exactness-from-warm-messages', 0) + 1
        if bad:
            break
    ix = {a: i for i, a in enumerate(attrs)}
    hyper = sorted(sorted(ix[a] for a in c) for c in cliques)
    if kind == 'gbp':
        depth = 1 + max([0] + [sum(1 for s in obj.cliques if set(s) < set(r0)) and _depth(obj, r0) for r0 in obj.cliques])
        if depth >= 4:
            probes['region-graph-depth>=4'] = 1
    measure = [kind, case['structure'], hyper, hist, tie]
    nontrivial = len(cliques) >= 2 and (len(case['calls']) >= 2 or tie)
    return dict(violations=viol[:1], measure=measure, nontrivial=nontrivial, faults=faults, probes=probes, steps=steps,
                digest=core.digest([digests, [v['sig'] for v in viol[:1]]]))


# ----------------------------------------------------------------------------------- C18
def simplex_projection(v, total, w=None):
    """argmin sum w_i (mu_i - v_i)^2 s.t. mu >= 0, sum mu = total  (w uniform here)."""
    v = np.asarray(v, dtype=float)
    u = np.sort(v)[::-1]
    css = np.cumsum(u) - total
    k = np.arange(1, v.size + 1)
    cond = u - css / k > 0
    rho = k[cond][-1]
    tau = css[cond][-1] / rho
    return np.maximum(v - tau, 0.0)


def truth(case):
    r = random.Random(case['truth_seed'])
    P = np.array([r.expovariate(1.0) for _ in range(int(np.prod(case['sizes'])))]).reshape(case['sizes'])
    return P / P.sum() * case['total_true']


def materialise(case):
    P = truth(case)
    out = []
    for spec in case['pool']:
        x = refmodel.marginal_p(P, case['attrs'], spec['proj']).reshape(-1)
        r = random.Random(spec['seed'])
        y = x + np.array([r.gauss(0, spec['sigma']) for _ in range(x.size)])
        Q = sparse.eye(x.size) if r.random() < 0.5 else np.eye(x.size)       # LocalInference has no fix_measurements: Q=None is not supported input
        if not case['disjoint'] and x.size > 2 and r.random() < 0.2:
            k = r.randint(1, x.size - 1)        # a query that sees only some cells: it cannot express the total
            Q = np.eye(x.size)[:k]
            y = y[:k]
        out.append((Q, y, spec['sigma'], tuple(spec['proj'])))
    return out


def loss_from(tables, meas):
    tot = 0.0
    for Q, y, sigma, proj in meas:
        x = np.asarray(tables[proj], dtype=float).reshape(-1)
        d = (np.asarray(Q @ x).reshape(-1) - y) / sigma
        tot += 0.5 * float(d @ d)
    return tot


class Counter:
    """a user callback that watches the tables of the call it was passed to (like a logger of specific cliques)"""
    def __init__(self):
        self.calls = 0
        self.keys = None

    def __call__(self, mu):
        self.calls += 1
        keys = sorted(map(tuple, mu.keys()))
        if self.keys is None:
            self.keys = keys
        elif keys != self.keys:
            raise KeyError('callback of an earlier estimate() call invoked with the tables of another call: %s' % (keys[:3],))


def run_c18(mbi, case):
    attrs, sizes = case['attrs'], case['sizes']
    dom = mbi.Domain(attrs, sizes)
    viol, faults, probes = [], {}, {}
    steps = 0
    pool = materialise(case)
    oracle = case['oracle']
    eng = mbi.LocalInference(dom, iters=1, warm_start=case['warm'], marginal_oracle=oracle)
    digests, hist = [], []
    control = [0, 0, 0]
    for ci, call in enumerate(case['calls']):
        meas = [pool[i] for i in call['sub']]
        eng.iters = call['iters']
        cb = Counter() if (ci + len(call['sub'])) % 2 == 0 else None     # half of the calls pass no callback (and go through the shared default options)
        tag = 'oracle=%s call#%d iters=%d total=%r meas=%s warm=%s callback=%s' % (oracle, ci, call['iters'], call['total'], call['sub'], case['warm'], 'yes' if cb else 'none')
        before_bytes = [((Q_.toarray() if sparse.issparse(Q_) else np.asarray(Q_)).tobytes(), y_.tobytes()) for Q_, y_, s_, p_ in meas]
        # runaway restart recursion (finding F10) should surface as the RecursionError it is within seconds, not after minutes of
        # 1000 restarts x 50 iterations: the interpreter's recursion limit is lowered to ~250 frames above the current depth
        import sys as _sys, inspect as _inspect
        _old = _sys.getrecursionlimit()
        _sys.setrecursionlimit(min(_old, len(_inspect.stack()) + 250))
        try:
            if cb is not None:
                model, v = guard(lambda: eng.estimate(meas, call['total'], callback=cb), 'LocalInference.estimate:' + oracle)
            else:
                model, v = guard(lambda: eng.estimate(meas, call['total']), 'LocalInference.estimate:' + oracle)
                cb = Counter()
                cb.calls = call['iters']
        finally:
            _sys.setrecursionlimit(_old)
        steps += cb.calls
        if ci > 0:
            faults['estimator-reuse'] = 1
        for (Q_, y_, s_, p_), (qb, yb) in zip(meas, before_bytes):
            if y_.tobytes() != yb or (Q_.toarray() if sparse.issparse(Q_) else np.asarray(Q_)).tobytes() != qb:
                viol.append(Violation('c18-caller-inputs', 'c18-caller-inputs:' + oracle, 'estimate() rewrote the caller\'s measurement arrays for %s: every later use of the same list sees other data (%s)' % (p_, tag)).as_dict())
                break
        if viol:
            break
        extra = cb.calls - call['iters']
        if extra > 0:
            probes['restart-or-post-iterations'] = probes.get('restart-or-post-iterations', 0) + 1
            control[0] += 1
        hist.append((call['iters'] if call['iters'] <= 5 else ('<=60' if call['iters'] <= 60 else '>60'), call['total'] is None, len(call['sub'])))
        if v:
            if 'damping' in v.msg and oracle == 'pairwise':
                v.sig += ':pairwise-no-damping'
            viol.append(v.as_dict())
            break
        total = float(model.total)
        if call['total'] is None:
            # the estimated total: LocalInference and exact estimation apply the same rule to the same measurement list
            ref_eng = mbi.FactoredInference(dom, iters=1)
            ref_model, _ = guard(lambda: ref_eng.estimate(meas, None), 'FactoredInference.estimate')
            if ref_model is not None and abs(total - float(ref_model.total)) > 1e-9 * max(1.0, abs(float(ref_model.total))):
                viol.append(Violation('c18-total', 'c18-total:estimated:' + oracle, 'total=None: approximate estimation uses total %r, exact estimation %r for the same measurements (%s)' % (model.total, ref_model.total, tag)).as_dict())
                break
        for Q_, y_, s_, proj_ in meas:
            if not any(set(proj_) <= set(cl) for cl in model.cliques):
                viol.append(Violation('c18-measured-clique-missing', 'c18-measured-clique-missing:' + oracle, 'the measured clique %s is contained in no region of the returned model (%s)' % (proj_, tag)).as_dict())
                break
        if viol:
            break
        if call['total'] is not None and abs(total - call['total']) > 1e-9 * call['total']:
            viol.append(Violation('c18-total', 'c18-total:' + oracle, 'the caller supplied total %r but the returned model has total %r (%s)' % (call['total'], model.total, tag)).as_dict())
            break
        tables = {}
        bad = False
        for Q, y, sigma, proj in meas:
            t, v = guard(lambda: model.project(proj), 'project')
            if v:
                viol.append(v.as_dict())
                bad = True
                break
            arr = np.asarray(t.values, dtype=float)
            tables[proj] = arr
            digests.append(core.arr_digest(arr))
            if not np.all(np.isfinite(arr)) or arr.min() < -1e-9 * total:
                viol.append(Violation('c18-valid', 'c18-valid:' + oracle, 'table for measured clique %s has non-finite or negative entries (%s)' % (proj, tag)).as_dict())
                bad = True
                break
            if abs(arr.sum() - total) > 1e-6 * total:
                projs = [tuple(m_[3]) for m_ in meas]
                permdup = any(set(a_) == set(b_) and a_ != b_ for a_ in projs for b_ in projs)      # one attribute set measured under two attribute orders
                viol.append(Violation('c18-sum', 'c18-sum:' + oracle + (':permuted-duplicate-cliques' if permdup else ''), 'table for measured clique %s sums to %r, total %r (%s)' % (
                    proj, float(arr.sum()), total, tag)).as_dict())
                bad = True
                break
        if bad:
            break
        v = check_axis_order(dom, tables, meas, total, oracle, tag, probes)
        if v:
            viol.append(v.as_dict())
            break
        L = loss_from(tables, meas)
        uni = {proj: np.full(int(np.prod([dom.config[a] for a in proj])), total / np.prod([dom.config[a] for a in proj])) for _, _, _, proj in meas}
        Lu = loss_from(uni, meas)
        if L > Lu * (1 + 1e-9) + 1e-12:
            small = ':iters=%d' % call['iters']
            viol.append(Violation('c18-not-worse-than-uniform', 'c18-not-worse-than-uniform:%s%s' % (oracle, small),
                                  'returned fit has loss %.6g, the uniform start has %.6g (%s)' % (L, Lu, tag)).as_dict())
            break
        if oracle == 'convex' and hasattr(model, 'marginals'):
            f, v = guard(lambda: model.primal_feasibility(model.marginals), 'primal_feasibility')
            if v:
                viol.append(v.as_dict())
                break
            if not (f < 1.0):
                viol.append(Violation('c18-feasible', 'c18-feasible', 'convex oracle: primal feasibility of the returned marginals is %.4g >= 1.0 (%s)' % (f, tag)).as_dict())
                break
            probes['feasibility-checked'] = probes.get('feasibility-checked', 0) + 1
            # overlapping measured tables: by the triangle inequality along the region graph their disagreement on shared attributes
            # is at most the SUM of the edge disagreements the estimator's own feasibility measure averages
            E = sum(len(model.children[r]) for r in model.cliques)
            projs = sorted({m[3] for m in meas})
            for i, r in enumerate(projs):
                for s2 in projs[i + 1:]:
                    d = tuple(sorted(set(r) & set(s2)))
                    if not d:
                        continue
                    gap = float(np.abs(np.asarray(model.project(r).project(d).values) - np.asarray(model.project(s2).project(d).values)).sum())
                    if gap > E * f * (1 + 1e-6) + 1e-9 * total:
                        viol.append(Violation('c18-overlap-agree', 'c18-overlap-agree', 'convex oracle: tables for %s and %s disagree on %s by %.4g counts, more than the total edge disagreement %.4g (= %d edges x feasibility %.4g) '
                                              'that the estimator\'s feasibility measure accounts for (%s)' % (r, s2, d, gap, E * f, E, f, tag)).as_dict())
                        break
                if viol:
                    break
            if viol:
                break
        if case['disjoint'] and call['iters'] >= 300 and not viol:
            v = check_exact(mbi, case, eng, meas, call, total, L, Lu, probes, tag)
            if v:
                viol.append(v.as_dict())
                break
    ix = {a: i for i, a in enumerate(attrs)}
    hyper = sorted(sorted(ix[a] for a in c) for c in case['cliques'])
    measure = [oracle, 'disjoint' if case['disjoint'] else 'overlapping', hyper, hist, control, case['warm']]
    nontrivial = len(case['calls']) >= 2 or control[0] > 0
    return dict(violations=viol[:1], measure=measure, nontrivial=nontrivial, faults=faults, probes=probes, steps=steps,
                digest=core.digest([digests, [v['sig'] for v in viol[:1]]]))


def check_axis_order(dom, tables, meas, total, oracle, tag, probes):
    """the answer for a measured clique is laid out in the clique's own attribute order.  Diagnostic with its own signature (the
    not-worse-than-uniform and exactness clauses are known findings on the unchanged tree): the table hardly beats the uniform table
    when read as returned, but fits the data >= 100x better when its cells are read in another axis order."""
    import itertools
    for proj in tables:
        if len(proj) < 2 or len(proj) > 3:
            continue
        mine = [m for m in meas if m[3] == proj]
        shape = [dom.config[a] for a in proj]
        n = int(np.prod(shape))
        arr = np.asarray(tables[proj], dtype=float).reshape(shape)
        L_id = loss_from({proj: arr}, mine)
        L_uni = loss_from({proj: np.full(n, total / n)}, mine)
        if not (L_id > 0.5 * L_uni and L_uni > 0):
            continue
        for perm in itertools.permutations(range(len(proj))):
            if list(perm) == sorted(perm):
                continue
            # the cells of the returned table, re-read as if they had been stored with the axes in order `perm`
            other = np.ascontiguousarray(arr.transpose(perm)).reshape(-1)
            if np.array_equal(other, arr.reshape(-1)):
                continue
            L_p = loss_from({proj: other}, mine)
            probes['axis-order-readings-compared'] = probes.get('axis-order-readings-compared', 0) + 1
            if L_p <= 0.01 * L_id and L_p < 0.1 * L_uni:
                return Violation('c18-axis-order', 'c18-axis-order:' + oracle, 'table for measured clique %s: loss %.6g as returned (uniform table: %.6g) but %.6g when its cells are read '
                                 'with the axes in order %s - the estimator fitted the data in another attribute order than the one it answers in (%s)' % (
                                     proj, L_id, L_uni, L_p, [proj[i] for i in perm], tag))
    return None


def optimum_disjoint(meas, total):
    """closed-form optimum for identity queries on pairwise disjoint cliques."""
    by = {}
    for Q, y, sigma, proj in meas:
        by.setdefault(proj, []).append((y, 1.0 / sigma ** 2))
    tables = {}
    for proj, lst in by.items():
        w = sum(wi for _, wi in lst)
        ybar = sum(y * wi for y, wi in lst) / w
        tables[proj] = simplex_projection(ybar, total)
    interior = all(t.min() > 1e-3 * total / t.size for t in tables.values())
    return loss_from(tables, meas), interior


def check_exact(mbi, case, eng, meas, call, total, L, Lu, probes, tag):
    Lstar, interior = optimum_disjoint(meas, total)
    where = '' if interior else ':boundary-optimum'
    probes['disjoint-optimum-%s' % ('interior' if interior else 'on-boundary')] = probes.get('disjoint-optimum-%s' % ('interior' if interior else 'on-boundary'), 0) + 1
    allowed = lambda: 1e-3 * max(Lstar, Lu - Lstar) + 1e-9 * Lu + 1e-12
    probes['disjoint-exactness-checked'] = probes.get('disjoint-exactness-checked', 0) + 1
    if L < Lstar * (1 - 1e-6) - 1e-9:
        return Violation('c18-below-optimum', 'c18-below-optimum:' + case['oracle'], 'loss %.9g is below the optimum %.9g over all distributions (%s)' % (L, Lstar, tag))
    gaps = [(1, L - Lstar)]
    if gaps[-1][1] <= allowed():
        return None
    for mult in (4, 16):
        fresh = mbi.LocalInference(eng.domain, iters=call['iters'] * mult, warm_start=False, marginal_oracle=case['oracle'])
        model, v = guard(lambda: fresh.estimate(meas, total), 'LocalInference.estimate:' + case['oracle'])
        if v:
            return None     # reported by the main path if it is reachable there
        tables = {proj: np.asarray(model.project(proj).values, dtype=float) for _, _, _, proj in meas}
        gaps.append((mult, loss_from(tables, meas) - Lstar))
        if gaps[-1][1] <= allowed():
            probes['exactness-needed-escalation'] = probes.get('exactness-needed-escalation', 0) + 1
            return None
    if gaps[-1][1] <= 0.5 * gaps[-2][1] and gaps[-2][1] <= 0.5 * gaps[-3][1]:
        probes['exactness-slow-but-shrinking'] = probes.get('exactness-slow-but-shrinking', 0) + 1
        return None
    return Violation('c18-exact-on-disjoint', 'c18-exact-on-disjoint:' + case['oracle'] + where,
                     'disjoint cliques: loss stays above the optimum %.6g: gaps by iteration multiplier %s (uniform %.6g, %s)' % (Lstar, [(m, round(g, 6)) for m, g in gaps], Lu, tag))


def run_case(case, prop):
    mbi = core.load_mbi()
    if prop == 'C16':
        return run_c16(mbi, case)
    return run_c18(mbi, case)


# ----------------------------------------------------------------------------------- shrinking
def shrink(case, prop):
    calls = case['calls']
    if len(calls) > 1:
        for k in range(len(calls)):
            c = copy.deepcopy(case)
            del c['calls'][k]
            ca = c.get('clone_at')
            if ca is not None and ca > k:
                c['clone_at'] = ca - 1
            elif ca is not None and ca >= len(c['calls']):
                c['clone_at'] = None
            yield c
    if prop == 'C16':
        if case.get('clone_at') is not None:
            c = copy.deepcopy(case)
            c['clone_at'] = None
            yield c
        if case.get('damping') not in (None, 0.5):
            c = copy.deepcopy(case)
            c['damping'] = 0.5
            yield c
        for k, call in enumerate(calls):
            if call.get('damp_up'):
                c = copy.deepcopy(case)
                c['calls'][k]['damp_up'] = False
                yield c
        if case.get('fresh_names'):
            c = copy.deepcopy(case)
            c['fresh_names'] = False
            yield c
        if case.get('tie') is not None:
            c = copy.deepcopy(case)
            c['tie'] = None
            yield c
        for k, call in enumerate(calls):
            if call['sweeps'] not in ('enough', 'split') and call['sweeps'] > 1:
                c = copy.deepcopy(case)
                c['calls'][k]['sweeps'] = 1
                yield c
            if call['total'] != 1.0:
                c = copy.deepcopy(case)
                c['calls'][k]['total'] = 1.0
                yield c
            if call['sub']:
                c = copy.deepcopy(case)
                c['calls'][k]['sub'] = False
                yield c
        for k in range(len(case['cliques'])):
            if len(case['cliques']) > 1:
                c = copy.deepcopy(case)
                del c['cliques'][k]
                yield c
        for a in case['attrs']:
            if len(case['attrs']) > 1:
                c = copy.deepcopy(case)
                i = c['attrs'].index(a)
                del c['attrs'][i]
                del c['sizes'][i]
                c['cliques'] = [[x for x in cl if x != a] for cl in c['cliques']]
                c['cliques'] = [cl for cl in c['cliques'] if cl]
                if c['cliques']:
                    yield c
        for i, s in enumerate(case['sizes']):
            if s > 2:
                c = copy.deepcopy(case)
                c['sizes'][i] = 2
                yield c
    else:
        for k, call in enumerate(calls):
            for it in (1, 2, 3, 10, 60):
                if it < call['iters']:
                    c = copy.deepcopy(case)
                    c['calls'][k]['iters'] = it
                    yield c
            if len(call['sub']) > 1:
                for j in range(len(call['sub'])):
                    c = copy.deepcopy(case)
                    del c['calls'][k]['sub'][j]
                    yield c
        if case['warm']:
            c = copy.deepcopy(case)
            c['warm'] = False
            yield c
        for i, s in enumerate(case['sizes']):
            if s > 2:
                c = copy.deepcopy(case)
                c['sizes'][i] = 2
                yield c
    c = gen.canon_names(case, keys_with_attr_lists=('cliques',), extra=(lambda c2, m: c2.update(pool=[dict(s, proj=[m[x] for x in s['proj']]) for s in case['pool']])) if 'pool' in case else None)
    if c is not None:
        yield c
