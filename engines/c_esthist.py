"""Engine C `est-hist`: C13 (history-freedom, immutable snapshots, untouched caller inputs, warm-start
convergence), C08 (coherence of every returned model) and C10 (structural zeros carry no mass).

One FactoredInference object per run is driven through a generated history of estimate()
calls (solvers, measurement subsets, totals, iteration counts, callback interrupts) and queries
on earlier returned models.  The simulator owns the call history, the interruption points, the
attribute names / hash seed and (C10) the RNG outcomes of synthetic_data.
"""
import contextlib
import copy
import io
import random
import traceback

import numpy as np
from scipy import sparse
from scipy.sparse.linalg import aslinearoperator

from sim import core, gen, refmodel
from sim.core import Violation, HarnessError, SimInterrupt
from sim.rng import SimRNG

NAME = 'est-hist'
STEP_MEANING = 'solver iterations executed by the estimator under test (callback invocations) + API operations'
COMPONENTS = {
    'real': ['mbi.inference.FactoredInference (estimate, mirror_descent, dual_averaging, interior_gradient, _setup, fix_measurements)',
             'mbi.graphical_model.GraphicalModel', 'mbi.clique_vector.CliqueVector', 'mbi.factor.Factor', 'scipy.sparse.linalg.lsmr'],
    'stub': ['mbi.inference.eigsh -> same function with a fixed generic start vector v0 (removes last-bit run-to-run variation)',
             'np.random.choice / shuffle -> SimRNG (C10 synthetic-record clause only)'],
}
RULES = {
    'C13': 'one run = one estimator object + a seeded history of EST / QUERY operations (few iterations each) with a fresh-estimator reference per call; '
           'measure = digest of (config class, sequence of (op kind, solver, measurement-subset, interrupt?)); non-trivial = >= 2 EST calls with different '
           'measurement sets, or an interrupted EST followed by another EST',
    'C08': 'one run = one estimator object + a seeded history of EST calls; every returned model checked for coherence; measure = digest of (config class, '
           'sequence of (solver, iters, measurement-subset, exit path)); non-trivial = a returned model has >= 2 cliques sharing an attribute or an early-exit path was taken',
    'C10': 'one run = one estimator object configured with structural zeros + a seeded history; measure as C13 plus the placement class of the zero cliques; '
           'non-trivial = zeros declared on a clique that is not itself measured, or warm start across >= 2 EST calls',
}
ASSUMPTIONS = {
    'C13': ['history-free oracle: same deterministic code on same inputs (eigsh start vector fixed), compared at 1e-9 relative',
            'snapshots and caller inputs compared bitwise', 'warm-start clause: both estimators get 300 iterations, gap must close 99% (escalated x4, x16 before reporting)'],
    'C08': ['tolerance 1e-6 relative + 1e-8*total between stored marginals and belief_propagation(stored potentials), and between any answer and the full vector'],
    'C10': ['zero mass means <= 1e-50*total (RDA/IG refit parameters through log(mu+1e-100) by design of Factor.log)'],
}
TIERS = {
    p: {'quick': dict(runs=r, budget_s=480, hashseeds=4, minimise_s=90, grace_s=180),
        'thorough': dict(runs=None, budget_s=600, hashseeds=16, minimise_s=300, grace_s=300)}
    for p, r in (('C13', 1600), ('C08', 4800), ('C10', 4800))
}
RUN_LIMIT_S = {'C13': 240, 'C08': 120, 'C10': 120}

_eigsh_patched = False


def patch_eigsh(mbi):
    """mbi.inference.eigsh -> same function with a fixed, generic start vector."""
    global _eigsh_patched
    if _eigsh_patched:
        return
    inf = mbi.inference
    real = inf.eigsh

    def eigsh_fixed(A, k=6, **kw):
        n = A.shape[0]
        if 'v0' not in kw and n > k:
            g = np.random.Generator(np.random.PCG64(12345 + n))
            kw['v0'] = g.random(n) + 0.5
        return real(A, k, **kw)
    inf.eigsh = eigsh_fixed
    _eigsh_patched = True


# ----------------------------------------------------------------------------------- generation
def gen_aim_case(rnd):
    """C10 through the one shipped consumer of structural_zeros: AIM end to end (warm-started engine, growing measurement
    list, annealing), with zero cells that the data respects; the synthetic records must respect them too."""
    d = rnd.choice([2, 3, 3])
    attrs = ['a', 'b', 'c'][:d]
    sizes = [rnd.randint(2, 4) for _ in attrs]
    zc = rnd.sample(attrs, 2 if d > 2 or rnd.random() < 0.7 else 1)
    shape = [sizes[attrs.index(a)] for a in zc]
    cells = [list(c) for c in np.ndindex(*shape)]
    zero_cells = rnd.sample(cells, rnd.randint(1, max(1, len(cells) // 2)))
    recs = []
    while len(recs) < rnd.choice([20, 60, 200]):
        r = [rnd.randrange(s_) for s_ in sizes]
        if [r[attrs.index(a)] for a in zc] not in zero_cells:
            recs.append(r)
    import itertools
    pairs = [list(c) for c in itertools.combinations(attrs, 2)] or [[attrs[0]]]
    wl = rnd.sample(pairs, rnd.randint(1, len(pairs)))
    pol = rnd.choice([{}, {'repeat': 0.8}, {'zero': 0.5, 'repeat': 0.5}, {'outlier': 0.3, 'argmin': 0.3}])
    # history on the mechanism object: an earlier run of the same AIM object - on the same table, or on a narrower table that lacks an
    # attribute of the zero set (a preview; the library may refuse it) - before the run whose output is checked
    earlier = rnd.choice([None, None, 'same', 'narrow'])
    drop = rnd.choice(zc) if len(attrs) >= 2 else None
    if earlier == 'narrow' and drop is None:
        earlier = 'same'
    return dict(engine='C', kind='aim', attrs=attrs, sizes=sizes, zeros=[[zc, zero_cells]], records=recs, workload=wl, eps=rnd.choice([0.3, 1.0, 3.0, 10.0]),
                delta=1e-6, rounds=rnd.choice([d, d + 1, 2 * d, 6]), rates=pol, rng_seed=rnd.getrandbits(32), iters_cap=rnd.choice([5, 20, 50]),
                earlier=earlier, drop=drop)


def run_aim_case(case):
    import pandas as pd
    from engines import d_twin
    mbi = core.load_mbi()
    mod = d_twin.load('aim')
    d_twin.capped_fi(mbi).CAP[0] = int(case['iters_cap'])
    dom = mbi.Domain(case['attrs'], case['sizes'])
    data = mbi.Dataset(pd.DataFrame(np.array(case['records'], dtype=int), columns=case['attrs']), dom)
    zs = zero_spec(case)
    rng = SimRNG(random.Random(case['rng_seed']), {'rates': case['rates']})
    viol, faults, probes = [], {}, {}

    def go():
        with rng.installed():
            m = mod.AIM(case['eps'], case['delta'], rounds=case['rounds'], structural_zeros=zs)
            m.prng = rng
            if case.get('earlier') == 'same':
                m.run(data, [(tuple(w), 1.0) for w in case['workload']])
                faults['aim-object-reused'] = 1
            elif case.get('earlier') == 'narrow':
                keep = [a for a in case['attrs'] if a != case['drop']]
                wl0 = [tuple(a for a in w if a != case['drop']) for w in case['workload']]
                wl0 = [w for w in wl0 if w] or [(keep[0],)]
                try:
                    m.run(data.project(keep), [(w, 1.0) for w in wl0])
                    probes['aim-narrow-preview-accepted'] = 1
                except Exception as e:              # a table that lacks an attribute of the zero set may be refused
                    probes['aim-narrow-preview-refused:' + type(e).__name__] = 1
                faults['aim-object-reused-after-narrower-table'] = 1
            return m.run(data, [(tuple(w), 1.0) for w in case['workload']])
    out, v = guard_repo(go, 'AIM.run')
    for k, n_ in rng.fired.items():
        faults['rng-' + k] = n_
    sig = [round(float(np.max(np.asarray(e['scale']))), 6) for e in rng.events if e['kind'] == 'normal']
    annealed = sum(1 for x, y in zip(sig, sig[1:]) if y < x * 0.75)
    if annealed:
        probes['aim-annealed'] = 1
    if v is not None:
        probes['aim-raised:' + v.sig[:60]] = 1        # AIM failing (e.g. too few rounds) is not a C10 matter
    else:
        df = out.df
        for zc, cells in case['zeros']:
            sub = df[list(zc)].values
            for cell in cells:
                hit = np.all(sub == np.array(cell), axis=1)
                if hit.any():
                    viol.append(Violation('c10-synthetic', 'c10-synthetic:AIM', 'AIM(structural_zeros=...) returned %d record(s) in the declared-impossible cell %s=%s (annealed %d times)' % (
                        int(hit.sum()), tuple(zc), tuple(cell), annealed)).as_dict())
                    break
            if viol:
                break
        probes['aim-with-zeros-checked'] = 1
    measure = ['aim', case['sizes'], case['rounds'], annealed > 0, sorted(case['rates'])]
    return dict(violations=viol[:1], measure=measure, nontrivial=annealed > 0, faults=faults, probes=probes, steps=len(rng.events),
                digest=core.digest([rng.summary()[:200], [x['sig'] for x in viol[:1]]]))


def gen_case(rnd, prop, tier):
    if prop == 'C10' and rnd.random() < 0.05:
        return gen_aim_case(rnd)
    n = rnd.choice([2, 3, 3, 4, 4, 5])
    long_chain = prop == 'C08' and rnd.random() < 0.1
    if long_chain:
        n = rnd.choice([6, 7, 8])       # many cliques: moderate parameters per clique add up along one configuration
    attrs = gen.gen_names(rnd, n)
    sizes = gen.gen_sizes(rnd, n, max_size=4, max_joint=1024, p_one=0.04) if not long_chain else [2] * n
    cliques, kind = gen.gen_cliques(rnd, attrs, max_width=3) if not long_chain else gen.gen_cliques(rnd, attrs, kind='chain', max_width=2)
    cliques = [cl for cl in cliques if cl][:6 if not long_chain else 8]
    if not cliques:
        cliques = [[attrs[0]]]
    pool = []
    for cl in cliques:
        for _ in range(rnd.choice([1, 1, 2])):
            nn = int(np.prod([sizes[attrs.index(a)] for a in cl]))
            qk = rnd.choice(['none', 'none', 'eye', 'dense', 'sparse', 'linop', 'prefix', 'scaled'])
            rows = rnd.randint(1, max(1, nn + 1)) if qk in ('dense', 'sparse', 'linop') else nn
            form = rnd.choice(['tuple', 'tuple', 'list'] + (['str'] if len(cl) == 1 else []))
            pool.append(dict(proj=list(cl), form=form, q=qk, rows=rows, sigma=rnd.choice([0.5, 1.0, 1.0, 2.0, 10.0]), seed=rnd.getrandbits(32)))
    rnd.shuffle(pool)
    zeros = []
    zero_prob = 1.0 if prop == 'C10' else 0.25
    witness = {a: rnd.randrange(s) for a, s in zip(attrs, sizes)}
    if rnd.random() < zero_prob:
        for _ in range(rnd.choice([1, 1, 2])):
            where = rnd.choice(['measured', 'sub', 'unmeasured', 'any'])
            if where == 'measured':
                zc = list(rnd.choice(cliques))
            elif where == 'sub':
                c = rnd.choice(cliques)
                zc = rnd.sample(c, rnd.randint(1, len(c)))
            else:
                zc = rnd.sample(attrs, rnd.randint(1, min(2, n)))
            shape = [sizes[attrs.index(a)] for a in zc]
            cells = [list(c) for c in np.ndindex(*shape) if list(c) != [witness[a] for a in zc]]
            if not cells:
                continue
            k = rnd.randint(1, max(1, len(cells) // 2))
            if any(z[0] == zc for z in zeros):
                continue        # the specification is a dict keyed by the attribute tuple
            zeros.append([zc, rnd.sample(cells, k)])
    solver_pool = ['MD', 'MD', 'RDA', 'IG']
    metric = 'L2'
    if prop != 'C10' and rnd.random() < 0.1:
        metric = 'L1'
        solver_pool = ['MD']
    warm = rnd.random() < (0.5 if prop != 'C13' else 0.35)
    elim = None
    if rnd.random() < 0.3:
        elim = list(attrs)
        rnd.shuffle(elim)
    max_it = {'C13': 10, 'C08': 40, 'C10': 25}[prop]
    ops = []
    prev = None
    n_est = 0
    for _ in range(rnd.randint(2, 6)):
        if n_est > 0 and rnd.random() < 0.25:
            if prop in ('C08', 'C13') and rnd.random() < (0.6 if prop == 'C08' else 0.4):
                ops.append(['SYNTH', rnd.randrange(n_est), rnd.choice([1, 7, 60, 300]), rnd.choice(['round', 'round', 'sample'])])
            else:
                ops.append(['QUERY', rnd.randrange(n_est), rnd.sample(attrs, rnd.randint(1, min(3, n)))])
            continue
        r = rnd.random()
        if prev is None or r < 0.3:
            sub = sorted(rnd.sample(range(len(pool)), rnd.randint(0 if rnd.random() < 0.15 else 1, len(pool))))
        elif r < 0.6:
            extra = [i for i in range(len(pool)) if i not in prev]
            sub = sorted(prev + ([rnd.choice(extra)] if extra else []))
        elif r < 0.8 and len(prev) > 1:
            sub = sorted(rnd.sample(prev, len(prev) - 1))
        else:
            sub = list(prev)
        prev = sub
        solver = rnd.choice(solver_pool)
        total = rnd.choice([None, 'true', 'true', 'true', 'half', 'double'])
        opts = {}
        if metric == 'L1':
            opts = {'stepsize': rnd.choice([0.01, 0.1])}
        elif solver == 'MD' and rnd.random() < 0.15:
            opts = {'stepsize': rnd.choice([0.001, 0.01])}
        cb = None
        r = rnd.random()
        if r < 0.2:
            cb = 'record'
        elif r < 0.4:
            cb = ['interrupt', rnd.choice([1, 1, 2, 3, 5])]
        elif r < 0.48:
            cb = ['sigint', rnd.choice([1, 2, 3, 5, 8])]       # KeyboardInterrupt delivered inside the k-th belief-propagation call of this estimate
        iters = rnd.choice([1, 1, 2, 3, 5, max_it])
        refill = None
        dense = [i for i in sub if pool[i]['q'] in ('dense', 'prefix')]
        if n_est > 0 and dense and rnd.random() < 0.25:
            refill = [rnd.choice(dense), rnd.getrandbits(32)]      # the caller refills its own query buffer in place between calls
        ops.append(['EST', sub, total, solver, opts, cb, iters, refill])
        n_est += 1
    total_true = rnd.choice([1.0, 10.0, 100.0, 1000.0])
    for op in ops:
        if op[0] == 'EST' and op[2] is not None:
            op[2] = {'true': 1.0, 'half': 0.5, 'double': 2.0}[op[2]] * total_true
    conv = prop == 'C13' and warm and rnd.random() < 0.2
    return dict(engine='C', attrs=attrs, sizes=sizes, cliques=cliques, pool=pool, zeros=zeros, metric=metric, warm=warm, elim=elim,
                ops=ops, conv=conv, truth_seed=rnd.getrandbits(32), total_true=total_true, decoy=rnd.random() < 0.3, clone=rnd.choice([None, None, None, 'deepcopy', 'pickle']),
                syn=dict(rates=rnd.choice([{}, {'nr_lowest': 1.0}, {'many_min': 1.0}, {'nr_first': 0.5, 'many_const': 0.5}]), shuffle=rnd.choice(['random', 'reverse']), seed=rnd.getrandbits(32),
                         method=rnd.choice(['round', 'sample'])))


def sample_view(case):
    return case


# ----------------------------------------------------------------------------------- materialisation
def truth(case):
    r = random.Random(case['truth_seed'])
    P = np.array([r.expovariate(1.0) for _ in range(int(np.prod(case['sizes'])))]).reshape(case['sizes'])
    for zc, cells in case['zeros']:
        for cell in cells:
            idx = [slice(None)] * len(case['attrs'])
            for a, v in zip(zc, cell):
                idx[case['attrs'].index(a)] = v
            P[tuple(idx)] = 0.0
    return P / P.sum() * case['total_true']


def make_Q(spec, n):
    r = random.Random(spec['seed'])
    k = spec['q']
    if k == 'none':
        return None
    if k == 'eye':
        return sparse.eye(n)
    if k == 'prefix':
        return np.tril(np.ones((n, n)))
    if k == 'scaled':
        return sparse.diags([r.choice([0.5, 1.0, 2.0, 3.0]) for _ in range(n)])
    M = np.array([[r.choice([0.0, 0.0, 1.0, 1.0, -1.0, 0.5]) for _ in range(n)] for _ in range(spec['rows'])])
    if not M.any():
        M[0, 0] = 1.0       # an all-zero query matrix is not generated (ARPACK rejects the zero operator)
    if k == 'dense':
        return M
    if k == 'sparse':
        return sparse.csr_matrix(M)
    return aslinearoperator(M)


def materialise(case):
    P = truth(case)
    attrs = case['attrs']
    pool = []
    for spec in case['pool']:
        proj = spec['proj']
        x = refmodel.marginal_p(P, attrs, proj).reshape(-1)
        Q = make_Q(spec, x.size)
        r = random.Random(spec['seed'] + 1)
        qx = x if Q is None else Q @ x
        y = np.asarray(qx, dtype=float) + np.array([r.gauss(0, spec['sigma']) for _ in range(np.size(qx))])
        p = tuple(proj) if spec['form'] == 'tuple' else (list(proj) if spec['form'] == 'list' else proj[0])
        pool.append((Q, y, spec['sigma'], p))
    return pool


def mat_options(opts, oi, iters, prop, faults=None):
    """The options dict handed to estimate.  For C13 about half of the caller-chosen MD step sizes become a decaying schedule
    (a callable of the iteration number - the third documented spelling of `stepsize`); derived from values the case already
    holds, so the generated cases are the same as before."""
    o = dict(opts)
    if prop == 'C13' and 'stepsize' in o and (oi + iters) % 2 == 1:
        a = float(o['stepsize'])
        o['stepsize'] = lambda t, a=a: a / np.sqrt(t)
        if faults is not None:
            faults['callable-stepsize-schedule'] = faults.get('callable-stepsize-schedule', 0) + 1
    return o


def zero_spec(case):
    return {tuple(zc): [tuple(c) for c in cells] for zc, cells in case['zeros']}


def make_engine(mbi, case, iters):
    dom = mbi.Domain(case['attrs'], case['sizes'])
    zs = zero_spec(case)
    eng = mbi.FactoredInference(dom, structural_zeros=zs, metric=case['metric'], iters=iters, warm_start=case['warm'],
                                elim_order=None if case['elim'] is None else list(case['elim']))      # every estimator gets its own list: the caller of the fresh reference passes the original order
    return eng, zs


class Callback:
    def __init__(self, kind):
        self.kind, self.calls = kind, 0

    def __call__(self, marginals):
        self.calls += 1
        if isinstance(self.kind, list) and self.kind[0] == 'interrupt' and self.calls >= self.kind[1]:
            # sticky: a cancelled caller stays cancelled; a callback that outlives its own call would cancel later calls too
            raise SimInterrupt('injected at callback %d' % self.calls)


def q_bytes(Q):
    if Q is None:
        return None
    if isinstance(Q, np.ndarray):
        return Q.tobytes()
    if sparse.issparse(Q):
        Q2 = Q.tocsr() if not sparse.isspmatrix_csr(Q) else Q
        return (Q.__class__.__name__, Q2.data.tobytes(), Q2.indices.tobytes(), Q2.indptr.tobytes())
    return (Q.__class__.__name__, (Q @ np.eye(Q.shape[1])).tobytes())


def input_snapshot(meas, zs):
    return ([(id(m), q_bytes(m[0]), m[1].tobytes(), m[2], copy.deepcopy(m[3]), type(m[3]).__name__) for m in meas], len(meas), copy.deepcopy(zs))


def loss_of(model, meas, metric='L2'):
    """independent evaluation of the objective from the model's answers."""
    tot = 0.0
    for Q, y, sigma, proj in meas:
        p = (proj,) if isinstance(proj, str) else tuple(proj)
        x = np.asarray(model.project(p).values, dtype=float).reshape(-1)
        d = ((x if Q is None else Q @ x) - y) / sigma
        tot += float(np.abs(d).sum()) if metric == 'L1' else 0.5 * float(d @ d)
    return tot


def model_arrays(model):
    out = []
    for cl in model.cliques:
        out.append(np.asarray(model.potentials[cl].values, dtype=float))
        if hasattr(model, 'marginals'):
            out.append(np.asarray(model.marginals[cl].values, dtype=float))
    return out


def snapshot_digest(model, queries):
    """bitwise (same process): any change of a returned model's parameters or answers is a change."""
    parts = [core.arr_digest_exact(a) for a in model_arrays(model)]
    parts.append(repr(model.total))
    for q in queries:
        parts.append(core.arr_digest_exact(model.project(tuple(q)).values))
    return core.digest(parts)


def guard_repo(fn, what):
    """run fn; exceptions raised from repository code become violations, others propagate."""
    try:
        with contextlib.redirect_stdout(io.StringIO()), np.errstate(all='ignore'):
            return fn(), None
    except (SimInterrupt, HarnessError):
        raise
    except Exception as e:
        tb = traceback.format_exc()
        if core.REPO not in tb:
            raise
        where = [ln.strip() for ln in tb.splitlines() if 'File "%s' % core.REPO in ln]
        fn_name = where[-1].split(' in ')[-1] if where else '?'
        return None, Violation('no-exception', 'exception:%s:%s:%s' % (what, type(e).__name__, fn_name),
                               '%s raised %s: %s' % (what, type(e).__name__, str(e)[:200]))


# ----------------------------------------------------------------------------------- oracles
def theta_mag(model):
    m = 0.0
    for cl in model.cliques:
        v = np.asarray(model.potentials[cl].values, dtype=float)
        v = v[np.isfinite(v)]
        if v.size:
            m = max(m, float(np.max(np.abs(v))))
    return m


_hist_theta = [0.0]     # largest |theta| of any model returned earlier in the current run (warm start carries it over)


def precision_suffix(model):
    """float64 cannot normalise exp(theta) to better than eps*|theta|: violations of the 1e-6 tolerance that
    coincide with parameters >= 1e9 (in this model, or in an earlier model of a warm-started history) get their
    own signature (known finding F8), all others keep the plain one."""
    return ':theta>=1e9' if max(theta_mag(model), _hist_theta[0]) >= 1e9 else ''


def check_coherent(mbi, model, case, tag, solver, viol, probes):
    """C08 invariants on a returned model."""
    attrs, total = case['attrs'], float(model.total)
    solver = solver + precision_suffix(model)
    tol = lambda a, b: refmodel.close(a, b, total, rtol=1e-6, atol_rel=1e-8)
    if not np.isfinite(total) or total <= 0:
        viol.append(Violation('c08-total', 'c08-total:' + solver, 'model.total = %r (%s)' % (model.total, tag)).as_dict())
        return
    # the Kronecker-query path first, before the check itself re-runs anything on the returned model:
    # identity on one attribute, all-ones rows elsewhere = a one-way marginal
    j = len(model.cliques) % len(attrs)
    mats = [np.eye(case['sizes'][i]) if i == j else np.ones((1, case['sizes'][i])) for i in range(len(attrs))]
    kd, v = guard_repo(lambda: np.asarray(model.krondot(mats), dtype=float), 'krondot')
    if v:
        viol.append(v.as_dict())
        return
    if hasattr(model, 'marginals'):
        bp, v = guard_repo(lambda: model.belief_propagation(model.potentials), 'belief_propagation')
        if v:
            viol.append(v.as_dict())
            return
        for cl in model.cliques:
            if not tol(model.marginals[cl].values, bp[cl].values):
                viol.append(Violation('c08-marginals-vs-potentials', 'c08-marginals-vs-potentials:' + solver,
                                      'stored marginal on %s differs from belief_propagation(stored potentials) by %.3g (total %g, %s)' % (
                                          cl, refmodel.maxerr(model.marginals[cl].values, bp[cl].values), total, tag)).as_dict())
                break
    else:
        probes['early-exit-no-marginals'] = probes.get('early-exit-no-marginals', 0) + 1
    full, v = guard_repo(lambda: np.asarray(model.datavector(flatten=False), dtype=float), 'datavector')
    if v:
        viol.append(v.as_dict())
        return
    answers = [('datavector', list(attrs), full)]
    r = random.Random(len(model.cliques) * 7919 + len(attrs))
    queries = [list(cl) for cl in model.cliques]
    for _ in range(3):
        queries.append(r.sample(attrs, r.randint(1, min(3, len(attrs)))))
    for q in queries:
        a, v = guard_repo(lambda: model.project(tuple(q)), 'project')
        if v:
            viol.append(v.as_dict())
            return
        answers.append(('project', q, np.asarray(a.values, dtype=float)))
    tops = [np.asarray(model.potentials[cl].values, dtype=float) for cl in model.cliques]
    top = sum(float(np.max(t[np.isfinite(t)])) if np.isfinite(t).any() else 0.0 for t in tops)
    lz, v = guard_repo(lambda: float(model.belief_propagation(model.potentials, logZ=True)), 'belief_propagation')
    if v:
        viol.append(v.as_dict())
        return
    if top < 600 and abs(lz) < 600 and all(float(np.max(np.abs(t[np.isfinite(t)]), initial=0)) < 600 for t in tops):     # krondot exponentiates the raw parameters (and logZ) by construction: only where exp() cannot overflow
        answers.append(('krondot', [attrs[j]], kd.reshape(-1)))
    for kind, q, arr in answers:
        if not np.all(np.isfinite(arr)):
            viol.append(Violation('c08-finite', 'c08-finite:' + solver, '%s(%s) has non-finite entries (%s)' % (kind, q, tag)).as_dict())
            return
        if arr.min() < -1e-9 * total:
            viol.append(Violation('c08-nonneg', 'c08-nonneg:' + solver, '%s(%s) has a negative entry %.3g (%s)' % (kind, q, arr.min(), tag)).as_dict())
            return
        if abs(arr.sum() - total) > 1e-6 * total:
            viol.append(Violation('c08-sum', 'c08-sum:' + solver, '%s(%s) sums to %r but model.total is %r (%s)' % (kind, q, float(arr.sum()), total, tag)).as_dict())
            return
    for kind, q, arr in answers[1:]:
        want = refmodel.marginal_p(full, attrs, q)
        if not tol(arr, want):
            inc = any(set(q) <= set(cl) for cl in model.cliques)
            viol.append(Violation('c08-agree', 'c08-agree:' + solver, 'project(%s) (%s) disagrees with the full vector on their shared attributes by %.3g (total %g, %s)' % (
                q, 'read from stored marginals' if inc and hasattr(model, 'marginals') else 'computed from stored potentials',
                refmodel.maxerr(arr, want), total, tag)).as_dict())
            return


def check_zeros(mbi, model, case, tag, solver, viol, probes, faults):
    """C10 invariants."""
    attrs, total = case['attrs'], float(model.total)
    lim = 1e-50 * total
    psuf = precision_suffix(model)
    full, v = guard_repo(lambda: np.asarray(model.datavector(flatten=False), dtype=float), 'datavector')
    if v:
        viol.append(v.as_dict())
        return
    r = random.Random(17 + len(attrs))
    for zc, cells in case['zeros']:
        supers = [list(zc)]
        rest = [a for a in attrs if a not in zc]
        if rest:
            q = list(zc) + r.sample(rest, r.randint(1, min(2, len(rest))))
            r.shuffle(q)
            supers.append(q)
        answers = [('datavector', list(attrs), full)]
        for q in supers:
            a, v = guard_repo(lambda: model.project(tuple(q)), 'project')
            if v:
                viol.append(v.as_dict())
                return
            answers.append(('project', q, np.asarray(a.values, dtype=float)))
        for kind, q, arr in answers:
            if np.any(np.isnan(arr)):
                viol.append(Violation('c10-nan', 'c10-nan:' + solver, '%s(%s) contains NaN (%s)' % (kind, q, tag)).as_dict())
                return
            if abs(arr.sum() - total) > 1e-6 * total:
                viol.append(Violation('c10-sum', 'c10-sum:' + solver + psuf, '%s(%s) sums to %r, total %r (%s)' % (kind, q, float(arr.sum()), total, tag)).as_dict())
                return
            for cell in cells:
                idx = [slice(None)] * len(q)
                for a, val in zip(zc, cell):
                    idx[q.index(a)] = val
                mass = float(np.max(np.abs(arr[tuple(idx)])))
                if mass > lim:
                    inc = any(set(q) <= set(cl) for cl in model.cliques)
                    viol.append(Violation('c10-zero-mass', 'c10-zero-mass:%s:%s' % (solver, kind if kind == 'datavector' else ('in-clique' if inc else 'out-of-clique')),
                                          'declared-impossible cell %s=%s has mass %.3g of total %g in %s(%s) (%s)' % (tuple(zc), tuple(cell), mass, total, kind, q, tag)).as_dict())
                    return


def check_synthetic(mbi, model, case, tag, solver, viol, probes, faults):
    syn = case['syn']
    rng = SimRNG(random.Random(syn['seed']), {'rates': syn['rates'], 'shuffle': syn['shuffle']})
    rows = 60

    def go():
        with rng.installed():
            return model.synthetic_data(rows=rows, method=syn['method'])
    ds, v = guard_repo(go, 'synthetic_data')
    if v:
        viol.append(v.as_dict())
        return
    for k, n in rng.fired.items():
        faults['rng-' + k] = faults.get('rng-' + k, 0) + n
    df = ds.df
    for zc, cells in case['zeros']:
        sub = df[list(zc)].values
        for cell in cells:
            hit = np.all(sub == np.array(cell), axis=1)
            if hit.any():
                viol.append(Violation('c10-synthetic', 'c10-synthetic:%s:%s' % (solver, syn['method']), '%d synthetic record(s) in the declared-impossible cell %s=%s (%s, method %s)' % (
                    int(hit.sum()), tuple(zc), tuple(cell), tag, syn['method'])).as_dict())
                return
    probes['synthetic-checked'] = probes.get('synthetic-checked', 0) + 1


def models_equal(m1, m2):
    if list(m1.cliques) != list(m2.cliques):
        return 'clique lists differ: %s vs %s' % (m1.cliques, m2.cliques)
    if m1.total != m2.total and abs(m1.total - m2.total) > 1e-9 * abs(m2.total):
        return 'totals differ: %r vs %r' % (m1.total, m2.total)
    if hasattr(m1, 'marginals') != hasattr(m2, 'marginals'):
        return 'one model has stored marginals, the other has not'
    a1, a2 = model_arrays(m1), model_arrays(m2)
    for x, y in zip(a1, a2):
        if x.shape != y.shape:
            return 'shapes differ'
        with np.errstate(invalid='ignore'):
            same = (x == y) | (np.abs(x - y) <= 1e-9 * np.abs(y) + 1e-9 * abs(m2.total) * 1e-3)
        if not np.all(same):
            return 'parameters/marginals differ by %.3g' % refmodel.maxerr(np.where(np.isfinite(x), x, 0), np.where(np.isfinite(y), y, 0))
    return None


# ----------------------------------------------------------------------------------- run
def run_case(case, prop):
    if case.get('kind') == 'aim':
        return run_aim_case(case)
    mbi = core.load_mbi()
    patch_eigsh(mbi)
    attrs = case['attrs']
    viol, faults, probes = [], {}, {}
    steps = 0
    pool = materialise(case)
    if prop == 'C10' and case.get('decoy'):
        # another estimator on the same domain, configured WITHOUT zeros, is used first in the same process
        first = [o for o in case['ops'] if o[0] == 'EST']
        if first:
            plain = mbi.FactoredInference(mbi.Domain(case['attrs'], case['sizes']), metric=case['metric'], iters=1, warm_start=case['warm'],
                                          elim_order=None if case['elim'] is None else list(case['elim']))
            guard_repo(lambda: plain.estimate([pool[i] for i in first[0][1]], first[0][2], engine='MD' if case['metric'] == 'L1' else first[0][3],
                                              options=dict(first[0][4])), 'estimate')
    eng, zs = make_engine(mbi, case, iters=1000)
    if prop == 'C10' and case.get('clone'):
        eng = copy.deepcopy(eng) if case['clone'] == 'deepcopy' else __import__('pickle').loads(__import__('pickle').dumps(eng))     # one private copy per solver / worker
    zs_before = copy.deepcopy(zs)
    returned = []           # (model, snapshot digest, queries, est index)
    _hist_theta[0] = 0.0
    seq = []
    est_sets = []
    interrupted_then_est = False
    pending_interrupt = False
    digests = []
    last = None
    snap_queries = [list(attrs[:2]), [attrs[-1]]] + ([[attrs[0], attrs[-1]]] if len(attrs) > 2 else [])
    for oi, op in enumerate(case['ops']):
        if op[0] == 'SYNTH':
            hit = [r_ for r_ in returned if r_[3] == op[1] + 1]
            if hit:
                m = hit[0][0]
                rng = SimRNG(random.Random(case['syn']['seed'] + oi), {'rates': case['syn']['rates'], 'shuffle': case['syn']['shuffle']})

                def go():
                    with rng.installed():
                        return m.synthetic_data(rows=op[2], method=op[3])
                _, v = guard_repo(go, 'synthetic_data')
                if v:
                    probes['synthetic_data-raised(other property)'] = 1
                faults['model-used-for-synthetic-data'] = faults.get('model-used-for-synthetic-data', 0) + 1
                seq.append(('S', op[3]))
                steps += 1
                if prop == 'C08':
                    check_coherent(mbi, m, case, 'model of EST #%d re-checked after synthetic_data(rows=%d, method=%s)' % (op[1] + 1, op[2], op[3]), 'after-synthetic_data', viol, probes)
                    if not viol and (oi + op[2]) % 2 == 0:
                        # one more use of a returned model: a Kronecker-product query (all-ones row per attribute = the total), then the coherence check again
                        before, _ = guard_repo(lambda: [np.array(m.project(cl).datavector(), dtype=float) for cl in m.cliques], 'project')
                        _, v = guard_repo(lambda: m.krondot([np.ones((1, k_)) for k_ in m.domain.shape]), 'krondot')
                        if v:
                            viol.append(v.as_dict())
                        after, _ = guard_repo(lambda: [np.array(m.project(cl).datavector(), dtype=float) for cl in m.cliques], 'project')
                        if before is not None and after is not None and not viol:
                            for cl, b_, a_ in zip(m.cliques, before, after):
                                if not np.array_equal(b_, a_, equal_nan=True):
                                    viol.append(Violation('c08-coherent', 'c08-coherent:answer-changed-by-krondot', 'the in-clique answer on %s of the model of EST #%d changed by %.3g after a krondot query on the same model' % (
                                        cl, op[1] + 1, float(np.nanmax(np.abs(b_ - a_))))).as_dict())
                                    break
                        faults['model-used-for-krondot'] = faults.get('model-used-for-krondot', 0) + 1
                        check_coherent(mbi, m, case, 'model of EST #%d re-checked after krondot' % (op[1] + 1), 'after-krondot', viol, probes)
        elif op[0] == 'QUERY':
            if op[1] < len(returned):
                m = returned[op[1]][0]
                _, v = guard_repo(lambda: m.project(tuple(op[2])), 'project')
                if v:
                    viol.append(v.as_dict())
                seq.append(('Q', len(op[2])))
                steps += 1
        else:
            _, sub, total, solver, opts, cb, iters = op[:7]
            refill = op[7] if len(op) > 7 else None
            if refill is not None and isinstance(pool[refill[0]][0], np.ndarray):
                rr = random.Random(refill[1])
                Qb, yb = pool[refill[0]][0], pool[refill[0]][1]
                Qb[...] = np.array([[rr.choice([0.0, 1.0, 1.0, -1.0, 0.5]) for _ in range(Qb.shape[1])] for _ in range(Qb.shape[0])])
                if not Qb.any():
                    Qb[0, 0] = 1.0
                xt = refmodel.marginal_p(truth(case), attrs, case['pool'][refill[0]]['proj']).reshape(-1)
                yb[...] = Qb @ xt + np.array([rr.gauss(0, case['pool'][refill[0]]['sigma']) for _ in range(Qb.shape[0])])
                faults['caller-refilled-query-buffer-in-place'] = faults.get('caller-refilled-query-buffer-in-place', 0) + 1
            meas = [pool[i] for i in sub]
            snap = input_snapshot(meas, zs)
            eng.iters = iters
            cbo = Callback(cb) if cb else None
            options = mat_options(opts, oi, iters, prop, faults)
            tag = 'op#%d EST solver=%s iters=%d meas=%s total=%r warm=%s' % (oi, solver, iters, sub, total, case['warm'])
            interrupted = False
            model = None
            use_default = (not opts) and (oi + len(sub)) % 2 == 0       # half of the option-free calls go through the shared default options dict
            if use_default:
                faults['shared-default-options-dict'] = faults.get('shared-default-options-dict', 0) + 1
            sig_k = cb[1] if isinstance(cb, list) and cb[0] == 'sigint' else None
            bp_calls = [0]
            GM = mbi.GraphicalModel
            bp_orig = GM.belief_propagation
            if sig_k is not None:
                def bp_sigint(self_, *a_, **k_):
                    bp_calls[0] += 1
                    if bp_calls[0] == sig_k:
                        raise KeyboardInterrupt('simulated SIGINT at the entry of belief-propagation call %d' % sig_k)
                    return bp_orig(self_, *a_, **k_)
                GM.belief_propagation = bp_sigint
            try:
                if use_default:
                    model, v = guard_repo(lambda: eng.estimate(meas, total, engine=solver, callback=cbo), 'estimate:' + solver)
                else:
                    model, v = guard_repo(lambda: eng.estimate(meas, total, engine=solver, callback=cbo, options=options), 'estimate:' + solver)
                if v:
                    if 'TypeError' in v.sig and solver in ('RDA', 'IG') and any(int(np.prod([case['sizes'][attrs.index(a)] for a in case['pool'][i]['proj']])) == 1 for i in sub):
                        v.sig += ':one-cell-marginal'
                    if 'ZeroDivisionError' in v.sig and len(sub) == 0:
                        v.sig += ':no-measurements'
                    if prop in ('C08',):
                        viol.append(v.as_dict())
                    else:
                        probes['estimate-raised(other property)'] = probes.get('estimate-raised(other property)', 0) + 1
            except KeyboardInterrupt:
                if sig_k is None or bp_calls[0] < sig_k:
                    raise                       # a real one
                interrupted = True
                faults['sigint-inside-belief-propagation'] = faults.get('sigint-inside-belief-propagation', 0) + 1
                GM.belief_propagation = bp_orig
                if prop == 'C08' and hasattr(eng, 'model') and hasattr(eng.model, 'potentials'):
                    check_coherent(mbi, eng.model, case, tag + ' engine.model after a KeyboardInterrupt inside belief-propagation call %d' % sig_k, solver + ':after-sigint', viol, probes)
            except SimInterrupt:
                interrupted = True
                if not (isinstance(cb, list) and cb[0] == 'interrupt'):
                    # this call passed no interrupting callback: the interrupt came from a callback of an EARLIER call
                    if prop == 'C13':
                        viol.append(Violation('c13-stale-callback', 'c13-stale-callback', 'a callback passed to an earlier call was invoked (and cancelled) a later call that passed %s (%s; history %s)' % (
                            'no callback' if cb is None else 'another callback', tag, seq)).as_dict())
                    cbo = cbo or Callback(None)
                else:
                    faults['callback-interrupt'] = faults.get('callback-interrupt', 0) + 1
                    if cbo.calls == 1:
                        probes['interrupt@1'] = probes.get('interrupt@1', 0) + 1
                    if prop == 'C08' and hasattr(eng, 'model') and hasattr(eng.model, 'potentials'):
                        # the optimiser was made to exit early: what the estimator object now exposes as its model (mechanisms read
                        # engine.model) must still be one coherent distribution
                        check_coherent(mbi, eng.model, case, tag + ' engine.model after the call was interrupted at callback %d' % cbo.calls, solver + ':after-interrupt', viol, probes)
            finally:
                GM.belief_propagation = bp_orig
            if sig_k is not None and not interrupted:
                if bp_calls[0] >= sig_k:
                    faults['sigint-swallowed-by-estimate'] = faults.get('sigint-swallowed-by-estimate', 0) + 1
                else:
                    probes['sigint-not-reached'] = probes.get('sigint-not-reached', 0) + 1
            steps += 1 + (cbo.calls if cbo else iters)
            if pending_interrupt:
                interrupted_then_est = True
            pending_interrupt = interrupted
            est_sets.append(tuple(sub))
            seq.append(('E', solver, tuple(sub), iters if iters < 6 else 'many', 'int' if interrupted else ('cb' if cb else '')))
            if cb and not interrupted and isinstance(cb, list) and cb[0] == 'interrupt':
                probes['interrupt-not-reached'] = probes.get('interrupt-not-reached', 0) + 1
            # (iii) caller inputs untouched
            if prop == 'C13':
                after = input_snapshot(meas, zs)
                if after != snap:
                    what = 'measurement list' if after[0] != snap[0] or after[1] != snap[1] else 'zero specification'
                    viol.append(Violation('c13-caller-inputs', 'c13-caller-inputs:' + what.split()[0], 'estimate() modified the caller\'s %s (%s)' % (what, tag)).as_dict())
                if zs != zs_before:
                    viol.append(Violation('c13-caller-inputs', 'c13-caller-inputs:zero', 'the caller\'s structural-zero specification changed (%s)' % tag).as_dict())
            if model is not None:
                last = (model, meas, total, solver, options)
                if case['warm']:
                    _hist_theta[0] = max(_hist_theta[0], theta_mag(model))
                if not hasattr(model, 'marginals'):
                    probes['early-exit'] = probes.get('early-exit', 0) + 1
                if prop == 'C13':
                    # (i) history-free
                    if not case['warm']:
                        fresh, _ = make_engine(mbi, case, iters=iters)
                        ref, v2 = guard_repo(lambda: fresh.estimate(meas, total, engine=solver, callback=Callback('record') if cb else None, options=mat_options(opts, oi, iters, prop)), 'estimate:' + solver)
                        if ref is not None:
                            diff = models_equal(model, ref)
                            if diff:
                                viol.append(Violation('c13-history-free', 'c13-history-free:' + solver, 'call #%d on a reused estimator differs from a fresh estimator: %s (%s; history %s)' % (
                                    len(est_sets), diff, tag, seq[:-1])).as_dict())
                        faults['fresh-reference-compared'] = faults.get('fresh-reference-compared', 0) + 1
                    dg = snapshot_digest(model, snap_queries)
                    returned.append((model, dg, snap_queries, len(est_sets)))
                    digests.append(core.digest([core.arr_digest(a) for a in model_arrays(model)]))
                elif prop == 'C08':
                    check_coherent(mbi, model, case, tag, solver, viol, probes)
                    returned.append((model, None, None, len(est_sets)))
                    digests.append(core.digest([core.arr_digest(a) for a in model_arrays(model)]))
                elif prop == 'C10':
                    check_zeros(mbi, model, case, tag, solver, viol, probes, faults)
                    if not viol:
                        check_synthetic(mbi, model, case, tag, solver, viol, probes, faults)
                    if not viol:
                        check_zeros(mbi, model, case, tag + ' re-checked after synthetic_data', solver + ':after-synthetic_data', viol, probes, faults)
                    returned.append((model, None, None, len(est_sets)))
                    digests.append(core.digest([core.arr_digest(a) for a in model_arrays(model)]))
        # (ii) snapshots of every earlier returned model, after every operation
        if prop == 'C13':
            for (m, dg, qs, k) in returned[:-1] if (op[0] == 'EST' and returned and returned[-1][3] == len(est_sets)) else returned:
                try:
                    with np.errstate(all='ignore'):
                        now = snapshot_digest(m, qs)
                except HarnessError:
                    raise
                except Exception as e:      # the snapshot could be taken when the model was returned: it must still be possible
                    viol.append(Violation('c13-snapshot', 'c13-snapshot:unreadable', 'the model returned by EST #%d can no longer be read after operation #%d %s: %s: %s' % (
                        k, oi, op[:4], type(e).__name__, e)).as_dict())
                    break
                if now != dg:
                    viol.append(Violation('c13-snapshot', 'c13-snapshot', 'the model returned by EST #%d changed its answers/parameters after operation #%d %s' % (k, oi, op[:4])).as_dict())
                    break
        if viol:
            break
    if prop == 'C08' and not viol:
        # every model handed back must still be one coherent distribution at the end of the history
        for (m, _, _, k) in returned[:-1]:
            check_coherent(mbi, m, case, 'model of EST #%d re-checked at the end of the history %s' % (k, seq), 'end-of-history', viol, probes)
            if viol:
                break
    # (iv) warm start converges to the cold optimum
    if prop == 'C13' and case.get('conv') and last is not None and not viol and case['metric'] == 'L2':
        v = check_convergence(mbi, case, eng, last, probes)
        faults['warm-vs-cold-convergence'] = 1
        if v:
            viol.append(v.as_dict())
    distinct_sets = len(set(est_sets))
    if prop == 'C13':
        nontrivial = distinct_sets >= 2 or interrupted_then_est
    elif prop == 'C08':
        nontrivial = probes.get('early-exit', 0) > 0 or any(
            any(set(a) & set(b) for i, a in enumerate(m.cliques) for b in m.cliques[i + 1:]) for m, _, _, _ in returned)
    else:
        measured = {tuple(sorted(case['pool'][i]['proj'])) for s in est_sets for i in s}
        nontrivial = any(tuple(sorted(zc)) not in measured for zc, _ in case['zeros']) or (case['warm'] and len(est_sets) >= 2)
    if case['warm'] and len(est_sets) >= 2:
        faults['warm-start-carryover'] = 1
    if len(set(map(frozenset, [[tuple(sorted(case['pool'][i]['proj'])) for i in s] for s in est_sets]))) >= 2 and case['warm']:
        probes['warm-start-across-changed-clique-set'] = 1
    cfg = (case['warm'], bool(case['zeros']), case['metric'], case['elim'] is not None)
    zplace = [tuple(sorted(case['attrs'].index(a) for a in zc)) for zc, _ in case['zeros']]
    measure = [cfg, seq, zplace if prop == 'C10' else None, [sorted(case['attrs'].index(a) for a in s['proj']) for s in case['pool']]]
    seen, uniq = set(), []
    for v in viol:
        if v['sig'] not in seen:
            seen.add(v['sig'])
            uniq.append(v)
    dg = core.digest([digests, [v['sig'] for v in uniq]])
    return dict(violations=uniq, measure=measure, nontrivial=nontrivial, faults=faults, probes=probes, steps=steps, digest=dg)


def check_convergence(mbi, case, eng, last, probes):
    model, meas, total, solver, options = last
    options = {}        # a caller-chosen constant step size carries no convergence guarantee: use the solver's own line search
    K = 300
    # the warm starting point: is it numerically one-hot (saturated)?  Then mirror descent has nowhere to go (known finding F12).
    spread, onehot = 0.0, False
    for cl in eng.model.cliques:
        v = np.asarray(eng.model.potentials[cl].values, dtype=float)
        v = v[np.isfinite(v)]
        if v.size:
            spread = max(spread, float(v.max() - v.min()))
    try:
        with np.errstate(all='ignore'):
            mu0 = eng.model.belief_propagation(eng.model.potentials)
        for cl in eng.model.cliques:
            a = np.asarray(mu0[cl].values, dtype=float)
            if a.size > 1 and np.isfinite(a).all() and a.sum() > 0:
                rel = a / a.sum()
                # numerically one-hot, or some cell (not an exact structural zero) holds less than 1e-16 of the mass - below the
                # resolution of a double next to the rest, so the loss cannot respond to it and MD's Armijo test fails for good
                # (measured boundary on the unchanged tree: a cell at exp(-36) of the mass recovers, one at exp(-40) never does)
                if (a.sum() - a.max()) / a.sum() < 1e-9 or np.any((rel > 0) & (rel < 1e-16)):
                    onehot = True
    except Exception:
        pass
    sat = ':saturated-start' if (onehot or spread >= 700) else ''
    hist = []
    for mult in (1, 4, 16):
        warm_eng = copy.copy(eng)          # shares eng.model (the warm starting point) but not later state
        warm_eng.iters = K * mult
        cold, _ = make_engine(mbi, case, iters=K * mult)
        cold.warm_start = False
        mw, v1 = guard_repo(lambda: warm_eng.estimate(meas, total, engine=solver, options=dict(options)), 'estimate:' + solver)
        mc, v2 = guard_repo(lambda: cold.estimate(meas, total, engine=solver, options=dict(options)), 'estimate:' + solver)
        if v1 or v2 or mw is None or mc is None:
            return None
        uni = mbi.GraphicalModel(mc.domain, list(mc.cliques), mc.total)
        uni.potentials = mbi.CliqueVector.zeros(mc.domain, uni.cliques)
        Lw, Lc, Lu = loss_of(mw, meas), loss_of(mc, meas), loss_of(uni, meas)
        hist.append((mult, Lw, Lc, Lu))
        best = min(Lw, Lc)
        # 1% of what optimisation can gain over the uniform start, plus a floor far below the noise level: a loss difference of
        # 5e-3 per scalar measurement is a normalised residual change of 0.1 sigma (needed when the optimum IS the uniform start)
        m_rows = sum(int(np.size(y_)) for _, y_, _, _ in meas)
        allowed = 1e-2 * max(Lu - best, 0.0) + 1e-9 * Lu + 5e-3 * m_rows + 1e-12
        blown = max(theta_mag(mw), theta_mag(mc)) >= 1e9 or any(
            bool(np.any(np.isnan(np.asarray(m_.potentials[cl].values, dtype=float)) | np.isposinf(np.asarray(m_.potentials[cl].values, dtype=float)))) for m_ in (mw, mc) for cl in m_.cliques)
        if max(theta_mag(mw), theta_mag(mc)) >= 1e9 and Lw - Lc < -allowed:
            probes['convergence-skipped(theta>=1e9, F8)'] = probes.get('convergence-skipped(theta>=1e9, F8)', 0) + 1
            return None
        if abs(Lw - Lc) <= allowed:
            if mult > 1:
                probes['convergence-needed-escalation'] = probes.get('convergence-needed-escalation', 0) + 1
            return None
    # still apart after 16x the iterations: a violation only if the run that is behind is STUCK, i.e. 16x more iterations closed
    # less than 5% of the distance it had to the other run's final loss (slow convergence is not a violation)
    (_, Lw1, Lc1, _), (_, Lw16, Lc16, Lu) = hist[0], hist[-1]
    if Lw16 > Lc16:
        behind1, behind16, target, below = Lw1, Lw16, Lc16, False
    else:
        behind1, behind16, target, below = Lc1, Lc16, Lw16, True
    closed = behind1 - behind16
    if closed >= 0.05 * (behind1 - target):
        probes['convergence-slow-but-progressing'] = probes.get('convergence-slow-but-progressing', 0) + 1
        return None
    # parameters beyond 1e9 (or NaN / +inf) at the last stage: the unbounded step growth of known finding F8, seen through this clause
    return Violation('c13-warm-converges', 'c13-warm-converges:' + solver + (':warm-below-cold' if below else '') + sat + (':theta>=1e9' if blown else ''),
                     'warm-started %s %s: losses (iteration multiplier, L_warm, L_cold) = %s, L_uniform=%.6g; the run that is behind closed %.3g of its distance %.3g with 16x the iterations; parameter spread of the warm starting point %.4g' % (
                         solver, 'ends BELOW what a cold start reaches and the cold start makes no progress towards it (the two do not optimise over the same set)' if below else 'stays above the cold-start result and makes no progress towards it',
                         [(m, float('%.6g' % a), float('%.6g' % b)) for m, a, b, _ in hist], Lu, closed, behind1 - target, spread))


# ----------------------------------------------------------------------------------- shrinking
def _fix_ops_after_pool_drop(c, k):
    for op in c['ops']:
        if op[0] == 'EST':
            op[1] = [i - (1 if i > k else 0) for i in op[1] if i != k]


def shrink(case, prop):
    if case.get('kind') == 'aim':
        if len(case['records']) > 4:
            h = len(case['records']) // 2
            for part in (case['records'][:h], case['records'][h:]):
                c = copy.deepcopy(case)
                c['records'] = part
                yield c
        if case['rates']:
            c = copy.deepcopy(case)
            c['rates'] = {}
            yield c
        if case.get('earlier'):
            c = copy.deepcopy(case)
            c['earlier'] = None
            yield c
        if len(case['workload']) > 1:
            for k in range(len(case['workload'])):
                c = copy.deepcopy(case)
                del c['workload'][k]
                yield c
        return
    ops = case['ops']
    n = len(ops)

    def drop_ops(idx):
        c = copy.deepcopy(case)
        keep = [i for i in range(n) if i not in idx]
        est_old = [i for i in range(n) if ops[i][0] == 'EST']
        est_new = [i for i in keep if ops[i][0] == 'EST']
        remap = {est_old.index(i): est_new.index(i) for i in est_new}
        new = []
        for i in keep:
            op = copy.deepcopy(ops[i])
            if op[0] in ('QUERY', 'SYNTH'):
                if op[1] not in remap:
                    continue
                op[1] = remap[op[1]]
            new.append(op)
        c['ops'] = new
        return c
    if n > 2:
        yield drop_ops(set(range(0, n // 2)))
        yield drop_ops(set(range(n // 2, n)))
    for k in range(n):
        yield drop_ops({k})
    if case.get('conv'):
        c = copy.deepcopy(case)
        c['conv'] = False
        yield c
    for k, op in enumerate(ops):
        if op[0] != 'EST':
            continue
        if len(op) > 7 and op[7]:
            c = copy.deepcopy(case)
            c['ops'][k][7] = None
            yield c
        if op[5]:
            c = copy.deepcopy(case)
            c['ops'][k][5] = None
            yield c
        if op[6] > 1:
            for it in (1, 2, 3):
                if it < op[6]:
                    c = copy.deepcopy(case)
                    c['ops'][k][6] = it
                    yield c
        if len(op[1]) > 0:
            for j in range(len(op[1])):
                c = copy.deepcopy(case)
                del c['ops'][k][1][j]
                yield c
        if op[2] not in (None, case['total_true']):
            c = copy.deepcopy(case)
            c['ops'][k][2] = case['total_true']
            yield c
        if op[3] != 'MD' and case['metric'] == 'L2':
            c = copy.deepcopy(case)
            c['ops'][k][3] = 'MD'
            yield c
        if op[4] and case['metric'] == 'L2':
            c = copy.deepcopy(case)
            c['ops'][k][4] = {}
            yield c
    used = {i for op in ops if op[0] == 'EST' for i in op[1]}
    for k in range(len(case['pool']) - 1, -1, -1):
        if k not in used:
            c = copy.deepcopy(case)
            del c['pool'][k]
            _fix_ops_after_pool_drop(c, k)
            yield c
    for k in range(len(case['zeros'])):
        c = copy.deepcopy(case)
        del c['zeros'][k]
        yield c
        if len(case['zeros'][k][1]) > 1:
            c = copy.deepcopy(case)
            c['zeros'][k][1] = case['zeros'][k][1][:1]
            yield c
    for k, spec in enumerate(case['pool']):
        if spec['q'] != 'none':
            c = copy.deepcopy(case)
            c['pool'][k]['q'] = 'none'
            yield c
        if spec['sigma'] != 1.0:
            c = copy.deepcopy(case)
            c['pool'][k]['sigma'] = 1.0
            yield c
        if spec['form'] != 'tuple':
            c = copy.deepcopy(case)
            c['pool'][k]['form'] = 'tuple'
            yield c
    if case['warm']:
        c = copy.deepcopy(case)
        c['warm'] = False
        yield c
    if case['elim'] is not None:
        c = copy.deepcopy(case)
        c['elim'] = None
        yield c
    # drop attributes not used by any pool entry / zero / query
    for a in case['attrs']:
        if len(case['attrs']) <= 1:
            break
        if any(a in s['proj'] for s in case['pool']) or any(a in zc for zc, _ in case['zeros']):
            continue
        c = copy.deepcopy(case)
        i = c['attrs'].index(a)
        del c['attrs'][i]
        del c['sizes'][i]
        c['cliques'] = [[x for x in cl if x != a] for cl in c['cliques']]
        if c['elim']:
            c['elim'] = [x for x in c['elim'] if x != a]
        for op in c['ops']:
            if op[0] == 'QUERY':
                op[2] = [x for x in op[2] if x != a] or [c['attrs'][0]]
        yield c
    for a, s in zip(case['attrs'], case['sizes']):
        if s > 2 and not any(a in zc for zc, _ in case['zeros']):
            c = copy.deepcopy(case)
            c['sizes'][c['attrs'].index(a)] = 2
            for spec in c['pool']:
                nn = int(np.prod([c['sizes'][c['attrs'].index(x)] for x in spec['proj']]))
                spec['rows'] = min(spec['rows'], nn) if spec['q'] in ('dense', 'sparse', 'linop') else nn
            yield c
