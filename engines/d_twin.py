"""Engine D `twin-mech`: C05 (privacy ledger never exceeds the (eps, delta) budget) and C06 (private data
reaches the output only through the DP primitives).

The four shipped mechanisms run end to end under the SimRNG.  Run A executes on a dataset D in record
mode (every noise draw, release, selection and post-processing draw is recorded, under a faithful or
adversarial outcome policy); run B executes on a neighbour D' in replay mode: every release returns
A's released value whatever B's operand is, every selection returns A's outcome whatever B's
probabilities are.  This is the adaptive-composition coupling: conditioned on identical past outputs,
compare what the two datasets would have released next.
"""
import contextlib
import copy
import io
import math
import random
import traceback
import types

import numpy as np
import pandas as pd
from scipy import sparse as _sparse

from sim import core, refmodel
from sim.core import Violation, HarnessError
from sim.rng import SimRNG, TraceDivergence

NAME = 'twin-mech'
STEP_MEANING = 'RNG events (noise draws / releases / selections / post-processing draws) recorded in run A and replayed in run B'
COMPONENTS = {
    'real': ['mechanisms/mst.py', 'mechanisms/aim.py', 'mechanisms/mwem+pgm.py', 'mechanisms/adaptive_grid.py', 'mechanisms/mechanism.py', 'mechanisms/cdp2adp.py (cdp_rho)',
             'mbi.FactoredInference (mirror descent) / GraphicalModel / Dataset / Domain', 'disjoint_set', 'networkx', 'pandas'],
    'stub': ['np.random.normal/laplace/choice/shuffle and Mechanism.prng -> SimRNG (record / replay, adversarial policies)',
             'autodp.privacy_calibrator (absent: stub, unused on these paths)', 'hdmm.matrix.Identity (absent: LinearOperator identity stub, AIM only)',
             'FactoredInference as seen by the mechanism modules: real class with iters capped per run (privacy accounting must hold for any post-processing effort)',
             'scipy.sparse.vstack as seen by adaptive_grid.py: returns a csr_matrix subclass with a settable T (the line `Q.T = ...` raises under the pinned scipy 1.18)',
             'cdp_rho as seen by the mechanism modules: the real function behind an exact-argument memo (it costs ~1 s per call)'],
}
RULES = {
    p: 'one run = one mechanism x parameter setting x dataset D x neighbour D\' x outcome policy, executed twice (record on D, replay on D\'); measure = digest of '
       '(mechanism, adjacency, parameter class, event-kind trace with scales rounded to 3 digits); non-trivial = at least one release whose operands differ between '
       'the runs and at least one selection whose probabilities differ'
    for p in ('C05', 'C06')
}
ASSUMPTIONS = {
    'C05': ['ledger: Gaussian release rho_i = ||x_A-x_B||^2/(2 sigma_i^2); Laplace release eps_i = ||x_A-x_B||_1/b_i; selection eps_i = max|log p_A - log p_B|, rho_i = (range of log-ratio)^2/8 (bounded-range bound); '
            'each is at most the nominal cost on a sound mechanism, so no false alarm can come from the ledger',
            'budget reference rho_ref(eps, delta) = own implementation of the Canonne-Kamath-Steinke bound without the alpha clamp (>= cdp_rho on a sound tree); 1e-9 relative slack',
            'outcomes of probability < 1e-200 in both runs are ignored in the log-ratio; a selection is charged only if the probability vectors differ'],
    'C06': ['B must issue the same event kinds, shapes and (bitwise) scales as A, consume all of A\'s events, raise iff A raises (same type), and return a dataframe identical to A\'s over the original domain'],
}
TIERS = {
    p: {'quick': dict(runs=1280, budget_s=600, hashseeds=4, minimise_s=150, grace_s=240),
        'thorough': dict(runs=None, budget_s=900, hashseeds=16, minimise_s=400, grace_s=300)}
    for p in ('C05', 'C06')
}
RUN_LIMIT_S = {'C05': 240, 'C06': 240}
MECHS = ['mst', 'aim', 'mwem', 'mwem', 'adagrid']


# ----------------------------------------------------------------------------------- harness shims
class _CSR_T(_sparse.csr_matrix):
    """csr_matrix with a settable T (adaptive_grid.py assigns Q.T; illegal in scipy >= 1.13)."""
    _Tset = None

    @property
    def T(self):
        return self._Tset if self._Tset is not None else self.transpose()

    @T.setter
    def T(self, v):
        self._Tset = v


class _SparseProxy(types.ModuleType):
    def __getattr__(self, name):
        return getattr(_sparse, name)

    @staticmethod
    def vstack(blocks, *a, **k):
        return _CSR_T(_sparse.vstack(blocks, *a, **k))


_state = {}


def capped_fi(mbi):
    if 'fi' not in _state:
        class CappedFI(mbi.FactoredInference):
            CAP = [20]

            @property
            def iters(self):
                return min(self._iters, CappedFI.CAP[0])

            @iters.setter
            def iters(self, v):
                self._iters = v
        _state['fi'] = CappedFI
    return _state['fi']


def memo_rho(fn):
    cache = {}

    def cdp_rho(eps, delta):
        k = (float(eps), float(delta))
        if k not in cache:
            cache[k] = fn(eps, delta)
        return cache[k]
    cdp_rho.__wrapped__ = fn
    return cdp_rho


def load(name):
    """load a mechanism module and install the shims once per process."""
    key = 'mod:' + name
    if key in _state:
        return _state[key]
    mbi = core.load_mbi()
    mod = core.load_mechanism({'mwem': 'mwem+pgm', 'adagrid': 'adaptive_grid'}.get(name, name))
    if hasattr(mod, 'FactoredInference'):
        mod.FactoredInference = capped_fi(mbi)
    if hasattr(mod, 'cdp_rho') and not hasattr(mod.cdp_rho, '__wrapped__'):
        mod.cdp_rho = memo_rho(mod.cdp_rho)
    if name == 'aim':
        mm = core.load_mechanism('mechanism')
        if not hasattr(mm.cdp_rho, '__wrapped__'):
            mm.cdp_rho = memo_rho(mm.cdp_rho)
    if name == 'adagrid':
        mod.sparse = _SparseProxy('sparse-proxy')
    _state[key] = mod
    return mod


_rho_ref = {}


def rho_ref(eps, delta):
    k = (eps, delta)
    if k not in _rho_ref:
        _rho_ref[k] = refmodel.ref_cdp_rho(eps, delta)
    return _rho_ref[k]


# ----------------------------------------------------------------------------------- generation
def gen_case(rnd, prop, tier):
    mech = rnd.choice(MECHS)
    d = rnd.choice([2, 3, 3, 4]) if mech != 'aim' else rnd.choice([2, 3, 3])
    attrs = ['a', 'b', 'c', 'd', 'e'][:d] if rnd.random() < 0.5 else rnd.sample(['age', 'sex', 'inc', 'zip', 'edu', 'x1', 'k'], d)
    sizes = [rnd.randint(2, 4) for _ in attrs]
    if mech == 'adagrid' and rnd.random() < 0.1:
        # a wide table: more than 100 candidate pairs in the selection step
        d = rnd.choice([16, 17])
        attrs = ['w%02d' % i for i in range(d)]
        sizes = [2] * d
    n = rnd.choice([2, 5, 20, 20, 60, 150, 300])
    # skewed cell probabilities so that rare and populated cells exist
    weights = [[rnd.random() ** 3 + 0.02 for _ in range(s)] for s in sizes]
    recs = [[rnd.choices(range(s), w)[0] for s, w in zip(sizes, weights)] for _ in range(n)]
    big = mech == 'mst' and rnd.random() < 0.15
    if big:
        # two high-cardinality attributes whose every value is occupied (so all survive MST's domain compression at low noise):
        # the measured pair marginal has > 16k cells, nearly all empty - any size-dependent path in measure/select is taken
        d = min(len(attrs), rnd.choice([2, 3]))
        attrs = attrs[:d]
        sizes = [rnd.randint(129, 150), rnd.randint(129, 150)] + [2] * (d - 2)
        n = rnd.choice([3, 4]) * max(sizes)
        off = [rnd.randrange(s) for s in sizes]
        recs = [[(j + o) % s for s, o in zip(sizes, off)] for j in range(n)]
    mirrored = mech == 'mst' and not big and rnd.random() < 0.3
    if mirrored:
        # two binary attributes u, v with mirrored marginals (u: n0/n1, v: n1/n0), each present twice (u, u', v, v'): the pairs (u,u') and
        # (v,v') have equal data-derived scores on D (up to rounding) but different tables; the noise policy below is 'zero' so that the
        # noisy one-way answers keep the symmetry.  Whatever orders or thresholds releases by such scores is decided by the neighbour's record.
        attrs = (attrs + ['m1', 'm2', 'm3'])[:4]
        sizes = [2, 2, 2, 2]
        p_, q_, q2_ = rnd.randint(5, 40), rnd.randint(3, 30), rnd.randint(31, 60)
        uv = [(0, 0)] * p_ + [(1, 1)] * p_ + [(0, 1)] * q_ + [(1, 0)] * q2_
        rnd.shuffle(uv)
        cols = rnd.sample(range(4), 4)          # positions of u, u', v, v'
        recs = []
        for u_, v_ in uv:
            r_ = [0, 0, 0, 0]
            r_[cols[0]] = r_[cols[1]] = u_
            r_[cols[2]] = r_[cols[3]] = v_
            recs.append(r_)
        n = len(recs)
    bounded = mech == 'mwem' and rnd.random() < 0.5
    adj = 'replace' if bounded else rnd.choice(['remove', 'add'])
    how = rnd.choice(['random', 'rare', 'popular'])
    counts = {}
    for r in recs:
        counts[tuple(r)] = counts.get(tuple(r), 0) + 1
    order = sorted(counts, key=lambda c: (counts[c], c))
    pick = {'random': rnd.choice(recs), 'rare': list(order[0]), 'popular': list(order[-1])}[how]
    idx = recs.index(list(pick))
    newrec = [rnd.randrange(s) for s in sizes]
    if rnd.random() < 0.4:
        newrec = list(order[-1]) if how == 'rare' else list(order[0])
    if adj == 'replace' and newrec == recs[idx]:
        newrec[0] = (newrec[0] + 1) % sizes[0]
    eps = rnd.choice([0.05, 0.3, 1.0, 1.0, 3.0, 10.0, 30.0, 60.0])    # large eps = low noise: one record becomes comparable to data-dependent thresholds
    delta = rnd.choice([1e-12, 1e-10, 1e-9, 4e-9, 1e-6, 1e-3])
    if big:
        eps, delta = rnd.choice([30.0, 60.0, 100.0]), rnd.choice([1e-6, 1e-3])
    if mirrored:
        eps = rnd.choice([10.0, 30.0, 60.0])
    params = {}
    if mech == 'aim':
        import itertools
        cands = [list(c) for r_ in (1, 2) for c in itertools.combinations(attrs, r_)] + ([list(attrs)] if d == 3 else [])
        wl = rnd.sample(cands, rnd.randint(1, min(4, len(cands))))
        if rnd.random() < 0.6:       # usual case: the workload touches every column
            for a in attrs:
                if not any(a in w for w in wl):
                    wl.append([a, rnd.choice([x for x in attrs if x != a])] if d > 1 else [a])
        zeros = None
        if d >= 2 and rnd.random() < 0.3:
            zc = rnd.sample(attrs, 2)
            zi = [attrs.index(a) for a in zc]
            present = {(r[zi[0]], r[zi[1]]) for r in recs}
            cells = [[i, j] for i in range(sizes[zi[0]]) for j in range(sizes[zi[1]]) if (i, j) not in present]
            if cells:
                zeros = [zc, rnd.sample(cells, rnd.randint(1, len(cells)))]
                if adj == 'add' and rnd.random() < 0.6:
                    cell = rnd.choice(zeros[1])
                    newrec[zi[0]], newrec[zi[1]] = cell[0], cell[1]      # the extra record of the neighbour sits in a declared-impossible cell
        params = dict(zeros=zeros, rounds=rnd.choice([d, d + 1, 2 * d, 6, 8]) if rnd.random() < 0.9 else rnd.choice([1, 2]), max_model_size=rnd.choice([80, 80, 1e-4, 3e-4, 2e-4]),
                      workload=[[w, rnd.choice([1.0, 1.0, 2.0, 0.5])] for w in wl])
    elif mech == 'mwem':
        import itertools
        pairs = [list(c) for c in itertools.combinations(attrs, 2)]
        wl = None if rnd.random() < 0.5 else rnd.sample(pairs, rnd.randint(1, len(pairs)))
        params = dict(rounds=rnd.choice([None, 1, 2, 3, 5]), noise=rnd.choice(['gaussian', 'gaussian', 'laplace', 'normal']), bounded=bounded,
                      alpha=rnd.choice([0.9, 0.9, 0.5, 0.2, 0.95, 0.99]), workload=wl, maxsize_mb=rnd.choice([25, 25, 25, 1e-3, 6e-4, 3e-4]))
        if rnd.random() < 0.3:
            # a size limit that bites: in round 1 exactly one candidate fits (limit = maxsize_mb * round / rounds), later rounds admit more
            cand = wl if wl is not None else pairs
            msz = sorted(int(np.prod([sizes[attrs.index(a)] for a in c])) + sum(sz for a, sz in zip(attrs, sizes) if a not in c) for c in cand)
            r_ = rnd.choice([2, 3, 5])
            if len(msz) >= 2 and msz[0] < msz[1]:
                params['rounds'] = r_
                params['maxsize_mb'] = r_ * 0.5 * (msz[0] + msz[1]) * 8 / 2 ** 20
    elif mech == 'adagrid':
        tg = []
        if 3 <= d <= 5 and rnd.random() < 0.6:
            tg = [rnd.choice(attrs)] if rnd.random() < 0.4 else rnd.sample(attrs, 2)      # two targets: aggregated marginals with three children
        params = dict(threshold=rnd.choice([0.0, 3.0, 5.0]) if len(tg) < 2 else rnd.choice([1.0, 3.0, 5.0]), targets=tg, split=rnd.choice([None, None, [0.1, 0.1, 0.8], [1, 2, 3]]),
                      warm_start=rnd.random() < 0.5)
    pol = rnd.choice(['faithful', 'faithful', 'zero', 'outlier', 'blackout', 'allsup', 'argmin', 'repeat', 'mixed', 'mixed'])
    rates = {'faithful': {}, 'zero': {'zero': 1.0}, 'outlier': {'outlier': 0.6}, 'blackout': {'blackout': 0.5}, 'allsup': {'allsup': 0.7},
             'argmin': {'argmin': 0.7}, 'repeat': {'repeat': 0.8},
             'mixed': {'zero': 0.1, 'outlier': 0.15, 'blackout': 0.1, 'allsup': 0.1, 'argmin': 0.2, 'repeat': 0.2, 'first': 0.1,
                       'nr_lowest': 0.3, 'many_min': 0.1}}[pol]
    if mirrored:
        pol, rates = 'zero', {'zero': 1.0}
    earlier = None
    if rnd.random() < 0.12:
        # an earlier run of the same mechanism in the same process, on other data of the same domain with as many records as D or D'
        earlier = dict(seed=rnd.getrandbits(32), like=rnd.choice(['A', 'B']))
    prelude = []
    if rnd.random() < 0.15:
        prelude = [[eps, rnd.choice([4e-9, 1e-9, 1e-6, 1e-3])]]     # an earlier run in the same process with another delta
    weights = None
    if rnd.random() < (0.3 if mech == 'mwem' else 0.12):
        # weighted records, all weights <= 1 so that one record still moves every count by at most 1
        weights = [rnd.choice([1.0, 1.0, 0.5, 0.25]) for _ in recs]
        weights[idx] = 1.0 if rnd.random() < 0.7 else weights[idx]
        if adj != 'replace' and rnd.random() < 0.5 and 1.0 in weights:
            for j in range(len(weights)):
                if j != idx and weights[j] == 1.0:
                    weights[j] = 0.5       # the differing record is the only heaviest one
    return dict(engine='D', mech=mech, attrs=attrs, sizes=sizes, records=recs, weights=weights, new_weight=rnd.choice([1.0, 0.5]), adj=adj, idx=idx, newrec=newrec, eps=eps, delta=delta, params=params,
                policy=dict(name=pol, rates=rates, shuffle=rnd.choice(['random', 'random', 'identity'])), rng_seed=rnd.getrandbits(32),
                iters_cap=rnd.choice([1, 5, 20, 100]), prelude=prelude, how=how, earlier=earlier, aim_prng=rnd.random() < 0.5)


def sample_view(case):
    c = dict(case)
    c['records'] = '<%d records>' % len(case['records'])
    return c


def datasets(mbi, case):
    dom = mbi.Domain(case['attrs'], case['sizes'])
    A = [list(r) for r in case['records']]
    B = [list(r) for r in case['records']]
    if case['adj'] == 'remove':
        del B[case['idx']]
    elif case['adj'] == 'add':
        B.append(list(case['newrec']))
    else:
        B[case['idx']] = list(case['newrec'])
    wA = wB = None
    if case.get('weights'):
        wA = list(case['weights'])
        wB = list(case['weights'])
        if case['adj'] == 'remove':
            del wB[case['idx']]
        elif case['adj'] == 'add':
            wB.append(case.get('new_weight', 1.0))
    mk = lambda rows, w: mbi.Dataset(pd.DataFrame(np.array(rows, dtype=int).reshape(len(rows), len(case['attrs'])), columns=case['attrs']), dom,
                                     weights=None if w is None else np.array(w, dtype=float))
    return mk(A, wA), mk(B, wB)


def execute(case, mod, data, rng):
    """one mechanism execution under the installed SimRNG; returns (output dataset or None, exception or None)."""
    p = case['params']
    mech = case['mech']
    try:
        with rng.installed(), contextlib.redirect_stdout(io.StringIO()), np.errstate(all='ignore'):
            for e, dl in case.get('prelude', []):
                mod.cdp_rho(e, dl) if hasattr(mod, 'cdp_rho') else core.load_mechanism('mechanism').cdp_rho(e, dl)
            if mech == 'mst':
                out = mod.MST(data, case['eps'], case['delta'])
            elif mech == 'aim':
                kw = {}
                if p.get('zeros'):
                    kw['structural_zeros'] = {tuple(p['zeros'][0]): [tuple(c) for c in p['zeros'][1]]}
                if case.get('aim_prng'):
                    m = mod.AIM(case['eps'], case['delta'], prng=rng, rounds=p['rounds'], max_model_size=p['max_model_size'], **kw)
                else:
                    m = mod.AIM(case['eps'], case['delta'], rounds=p['rounds'], max_model_size=p['max_model_size'], **kw)
                m.prng = rng
                out = m.run(data, [(tuple(w), wt) for w, wt in p['workload']])
            elif mech == 'mwem':
                wl = None if p['workload'] is None else [tuple(w) for w in p['workload']]
                out = mod.mwem_pgm(data, case['eps'], case['delta'], workload=wl, rounds=p['rounds'], maxsize_mb=p['maxsize_mb'], pgm_iters=1000,
                                   noise=p['noise'], bounded=p['bounded'], alpha=p['alpha'])
            else:
                out = mod.adagrid(data, case['eps'], case['delta'], p['threshold'], targets=list(p['targets']), split_strategy=p['split'],
                                  iters=1000, warm_start=p['warm_start'])
        return out, None
    except TraceDivergence as e:
        return None, e
    except HarnessError:
        raise
    except Exception as e:
        tb = traceback.format_exc()
        if core.REPO not in tb and 'sim/rng.py' not in tb:
            raise
        e._tb = tb
        return None, e


def where(e):
    tb = getattr(e, '_tb', '')
    w = [ln.strip() for ln in tb.splitlines() if 'File "%s' % core.REPO in ln]
    return w[-1].split(' in ')[-1] if w else '?'


# ----------------------------------------------------------------------------------- run
def run_case(case, prop):
    mbi = core.load_mbi()
    mod = load(case['mech'])
    capped_fi(mbi).CAP[0] = int(case['iters_cap'])
    DA, DB = datasets(mbi, case)
    viol, faults, probes = [], {}, {}
    mech = case['mech']
    if case.get('earlier'):
        r0 = random.Random(case['earlier']['seed'])
        n0 = len(DA.df) if case['earlier']['like'] == 'A' else len(DB.df)
        rows0 = [[r0.randrange(s_) for s_ in case['sizes']] for _ in range(n0)]
        D0 = mbi.Dataset(pd.DataFrame(np.array(rows0, dtype=int).reshape(n0, len(case['attrs'])), columns=case['attrs']), mbi.Domain(case['attrs'], case['sizes']))
        execute(dict(case, prelude=[]), mod, D0, SimRNG(random.Random(case['earlier']['seed'] + 1), {}))
        faults['earlier-run-same-mechanism-other-data'] = 1
    rngA = SimRNG(random.Random(case['rng_seed']), case['policy'])
    outA, excA = execute(case, mod, DA, rngA)
    if rngA.untracked:
        raise HarnessError('untracked noise use in run A: %s' % rngA.untracked[:3])
    if isinstance(excA, TraceDivergence):
        raise HarnessError('trace divergence in record mode')
    for k, v in rngA.fired.items():
        faults['rng-' + k] = v
    rngB = SimRNG(random.Random(0), case['policy'], script=rngA.events)
    outB, excB = execute(case, mod, DB, rngB)
    if rngB.untracked:
        raise HarnessError('untracked noise use in run B: %s' % rngB.untracked[:3])
    evA, evB = rngA.events, rngB.events
    tag = '%s eps=%g delta=%g adj=%s policy=%s' % (mech, case['eps'], case['delta'], case['adj'], case['policy']['name'])
    diverged = False
    # ------------------------------------------------------------- C06: trace and output equality
    c06 = []
    if isinstance(excB, TraceDivergence):
        diverged = True
        i = excB.index
        prev = evA[i - 1]['kind'] if i > 0 else 'start'
        c06.append(Violation('c06-trace', 'c06-trace:%s:%s' % (mech, 'scale' if (excB.want[0] == excB.got[0] and excB.want[0] in ('normal', 'laplace')) else 'event'),
                             'run on the neighbour diverged at event %d: recorded %s, requested %s (after %d identical events; %s)' % (i, excB.want, excB.got, i, tag)))
    elif (excA is None) != (excB is None) or (excA is not None and type(excA) is not type(excB)):
        diverged = True
        c06.append(Violation('c06-exception', 'c06-exception:%s' % mech, 'run A %s, run B %s on identical releases and selections (%s)' % (
            'returned' if excA is None else 'raised %s in %s' % (type(excA).__name__, where(excA)),
            'returned' if excB is None else 'raised %s: %s in %s' % (type(excB).__name__, str(excB)[:100], where(excB)), tag)))
    elif len(evB) != len(evA):
        diverged = True
        c06.append(Violation('c06-trace', 'c06-trace:%s:length' % mech, 'run B made %d RNG calls, run A %d (%s)' % (len(evB), len(evA), tag)))
    if excA is not None:
        probes['runA-raised:%s:%s:%s' % (type(excA).__name__, where(excA), str(excA)[:50])] = 1
    if not diverged and excA is None:
        dfA, dfB = outA.df, outB.df
        if list(dfA.columns) != list(dfB.columns) or dfA.shape != dfB.shape or not np.array_equal(dfA.values, dfB.values):
            c06.append(Violation('c06-output', 'c06-output:%s' % mech, 'the two runs observed identical releases and selections but returned different synthetic data (%s vs %s rows; %s)' % (
                dfA.shape[0], dfB.shape[0], tag)))
        for nm, o in (('A', outA),):
            dom = o.domain
            if list(dom.attrs) != list(case['attrs']) or list(dom.shape) != list(case['sizes']) or list(o.df.columns) != list(case['attrs']):
                c06.append(Violation('c06-domain', 'c06-domain:%s' % mech, 'returned data has domain %s, the input has %s (%s)' % (dom, dict(zip(case['attrs'], case['sizes'])), tag)))
            else:
                v = o.df.values
                if v.size and (np.any(np.isnan(v.astype(float))) or np.any(v < 0) or np.any(v.max(axis=0) >= np.array(case['sizes'])) or np.any(np.mod(v.astype(float), 1) != 0)):
                    c06.append(Violation('c06-domain', 'c06-values:%s' % mech, 'returned data has values outside the original domain (%s)' % tag))
    # ------------------------------------------------------------- C05: the ledger
    c05 = []
    rho_sum, eps_sum = 0.0, 0.0
    n_rel = n_sel = 0
    ledger = []
    if not diverged or True:
        for a, b in zip(evA, evB):
            if a['kind'] != b['kind']:
                break
            if a['kind'] in ('normal', 'laplace'):
                if not a.get('released') or not b.get('released'):
                    if a.get('released') != b.get('released'):
                        break
                    continue
                xa, xb = np.asarray(a['operand'], float), np.asarray(b['operand'], float)
                if xa.shape != xb.shape:
                    break
                sc = np.asarray(a.get('eff_scale', a['scale']), float)
                if np.any(xa != xb):
                    n_rel += 1
                    if a.get('truncated'):
                        # x + g(noise) with g truncating or folding: the support of the release depends on x, the zCDP / pure-DP
                        # cost of this release is unbounded whatever scale was charged
                        rho_sum = eps_sum = float('inf')
                        ledger.append(('truncated-noise:' + '+'.join(a['truncated']), a['i'], float(np.max(sc)), float('inf')))
                    elif a['kind'] == 'normal':
                        r_ = float(np.sum((xa - xb) ** 2 / (2 * sc ** 2)))
                        rho_sum += r_
                        ledger.append(('gauss', a['i'], float(np.max(sc)), r_))
                    else:
                        e_ = float(np.sum(np.abs(xa - xb) / sc))
                        eps_sum += e_
                        rho_sum += 0.5 * e_ ** 2
                        ledger.append(('laplace', a['i'], float(np.max(sc)), e_))
            elif a['kind'] == 'choice':
                pa, pb = a['p'], b['p']
                if pa is None or pb is None or pa.shape != pb.shape:
                    continue
                if np.any(pa != pb):
                    n_sel += 1
                    mask = (pa >= 1e-200) | (pb >= 1e-200)
                    with np.errstate(divide='ignore'):
                        L = np.log(pa[mask]) - np.log(pb[mask])
                    if np.any(~np.isfinite(L)):
                        e_, r_ = float('inf'), float('inf')
                    else:
                        e_ = float(np.max(np.abs(L)))
                        r_ = float((np.max(L) - np.min(L)) ** 2 / 8.0)
                    eps_sum += e_
                    rho_sum += r_
                    ledger.append(('select', a['i'], pa.size, r_))
    pure = mech == 'mwem' and case['params']['noise'] == 'laplace'
    if pure:
        budget = case['eps']
        spent = eps_sum
        unit = 'eps'
    else:
        budget = rho_ref(case['eps'], case['delta'])
        spent = rho_sum
        unit = 'rho'
    util = spent / budget if budget > 0 else float('inf')
    if excA is not None and not diverged:
        probes['ledger-not-evaluated(no output: both runs raised)'] = 1
    elif spent > budget * (1 + 1e-9):
        sub = mech + (':bounded' if case['params'].get('bounded') else '') + (':laplace' if pure else '')
        c05.append(Violation('c05-budget', 'c05-budget:%s' % sub, 'privacy ledger over %d releases and %d selections spends %s=%.6g but the (eps=%g, delta=%g) budget is %.6g (%.3fx; %s; ledger %s)' % (
            n_rel, n_sel, unit, spent, case['eps'], case['delta'], budget, util, tag, [(k, i, round(s, 4), round(c, 6)) for k, i, s, c in ledger][:12])))
    # ------------------------------------------------------------- bookkeeping
    nontrivial = n_rel >= 1 and n_sel >= 1
    probes['utilisation>0.5'] = 1 if util > 0.5 else 0
    probes['utilisation>0.9'] = 1 if util > 0.9 else 0
    if mech == 'aim':
        sig = [round(float(np.max(np.asarray(e['scale']))), 6) for e in evA if e['kind'] == 'normal']
        drops = sum(1 for x, y in zip(sig, sig[1:]) if y < x * 0.75)
        if drops >= 1:
            probes['aim-annealed>=1'] = 1
        if drops >= 3:
            probes['aim-annealed>=3'] = 1
    if mech == 'mst' and excA is None:
        probes['mst-completed'] = 1
        if max(case['sizes']) > 128:
            probes['mst-marginal>16k-cells'] = 1
    if case.get('prelude'):
        faults['earlier-budget-conversion-in-process'] = 1
    faults['neighbour-' + case['adj']] = 1
    if case.get('weights'):
        faults['weighted-records'] = 1
    if case['params'].get('zeros'):
        faults['aim-structural-zeros'] = 1
    trace = [(e['kind'], e['n'], None if e['kind'] not in ('normal', 'laplace') else float('%.3g' % float(np.max(np.asarray(e['scale']))))) for e in evA][:60]
    pclass = (case['eps'], case['delta'], case['params'].get('rounds'), case['params'].get('noise'), case['params'].get('bounded'))
    measure = [mech, case['adj'], pclass, trace]
    viol = [v.as_dict() for v in (c05 if prop == 'C05' else c06)]
    if prop == 'C05' and c06:
        probes['c06-divergence-seen-in-C05-run'] = 1
    if prop == 'C06' and c05:
        probes['c05-overspend-seen-in-C06-run'] = 1
    dg = core.digest([rngA.summary()[:300], round(spent, 12) if np.isfinite(spent) else 'inf', [v['sig'] for v in viol]])
    return dict(violations=viol, measure=measure, nontrivial=nontrivial, faults=faults, probes=probes, steps=len(evA) + len(evB), digest=dg)


# ----------------------------------------------------------------------------------- shrinking
def shrink(case, prop):
    n = len(case['records'])
    keep_idx = case['idx'] if case['adj'] in ('remove', 'replace') else None

    def drop(rows):
        c = copy.deepcopy(case)
        rows = set(rows)
        if keep_idx is not None and keep_idx in rows:
            return None
        c['records'] = [r for i, r in enumerate(case['records']) if i not in rows]
        if case.get('weights'):
            c['weights'] = [w for i, w in enumerate(case['weights']) if i not in rows]
        if keep_idx is not None:
            c['idx'] = keep_idx - sum(1 for i in rows if i < keep_idx)
        if not c['records']:
            return None
        return c
    if n > 4:
        for lo, hi in ((0, n // 2), (n // 2, n), (0, n // 4), (n // 4, n // 2), (n // 2, 3 * n // 4), (3 * n // 4, n)):
            c = drop([i for i in range(lo, hi) if i != keep_idx])
            if c is not None and len(c['records']) < n:
                yield c
    elif n > 1:
        for i in range(n):
            c = drop([i])
            if c is not None:
                yield c
    if case['prelude']:
        c = copy.deepcopy(case)
        c['prelude'] = []
        yield c
    if case.get('earlier'):
        c = copy.deepcopy(case)
        c['earlier'] = None
        yield c
    if case.get('weights'):
        c = copy.deepcopy(case)
        c['weights'] = None
        yield c
    if case['policy']['rates']:
        c = copy.deepcopy(case)
        c['policy'] = dict(name='faithful', rates={}, shuffle='identity')
        yield c
    if case['iters_cap'] > 1:
        c = copy.deepcopy(case)
        c['iters_cap'] = 1
        yield c
    p = case['params']
    if p.get('rounds') and p['rounds'] > 1:
        c = copy.deepcopy(case)
        c['params']['rounds'] = p['rounds'] - 1
        yield c
    if case['mech'] == 'aim' and len(p['workload']) > 1:
        for k in range(len(p['workload'])):
            c = copy.deepcopy(case)
            del c['params']['workload'][k]
            yield c
    if case['mech'] == 'mwem' and p.get('workload') and len(p['workload']) > 1:
        for k in range(len(p['workload'])):
            c = copy.deepcopy(case)
            del c['params']['workload'][k]
            yield c
    if case['mech'] == 'adagrid':
        if p['targets']:
            c = copy.deepcopy(case)
            c['params']['targets'] = []
            yield c
        if p['split']:
            c = copy.deepcopy(case)
            c['params']['split'] = None
            yield c
    # drop the last attribute if nothing refers to it
    if len(case['attrs']) > 2:
        a = case['attrs'][-1]
        used = False
        if case['mech'] == 'aim':
            used = any(a in w for w, _ in p['workload'])
        if case['mech'] == 'mwem' and p.get('workload'):
            used = any(a in w for w in p['workload'])
        if case['mech'] == 'adagrid':
            used = a in p['targets']
        if not used:
            c = copy.deepcopy(case)
            c['attrs'] = case['attrs'][:-1]
            c['sizes'] = case['sizes'][:-1]
            c['records'] = [r[:-1] for r in case['records']]
            c['newrec'] = case['newrec'][:-1]
            if case['adj'] == 'replace' and c['newrec'] == c['records'][c['idx']]:
                pass
            else:
                yield c
    for i, s in enumerate(case['sizes']):
        if s > 2 and all(r[i] < s - 1 for r in case['records']) and case['newrec'][i] < s - 1:
            c = copy.deepcopy(case)
            c['sizes'][i] = s - 1
            yield c
    for key, val in (('eps', 1.0), ('delta', 1e-6)):
        if case[key] != val:
            c = copy.deepcopy(case)
            c[key] = val
            yield c
