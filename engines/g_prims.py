"""Engine G `primitives`: C20 - seam observation.  What the property constrains is what each
primitive hands to the PRNG (the p= of choice, the scale= of normal/laplace); the fake PRNG
is the one place where that is visible exactly.  The simulator owns the PRNG seam and the call
history on the caller's arrays (repeated calls on the same objects, dicts built in different
insertion orders); there is no schedule or fault in this engine.
"""
import copy
import contextlib
import io
import random
import traceback

import numpy as np

from sim import core, gen, refmodel
from sim.core import Violation, HarnessError
from sim.rng import SimRNG

NAME = 'primitives'
STEP_MEANING = 'primitive calls observed at the PRNG seam'
COMPONENTS = {
    'real': ['mechanisms/mechanism.py Mechanism.exponential_mechanism / *_noise_scale / *_noise', 'mechanisms/mst.py exponential_mechanism',
             'mechanisms/adaptive_grid.py exponential_mechanism', 'mechanisms/mwem+pgm.py worst_approximated', 'mechanisms/cdp2adp.py', 'mbi.GraphicalModel.project (for worst_approximated)'],
    'stub': ['prng / np.random -> SimRNG', 'autodp.privacy_calibrator.ana_gaussian_mech -> sentinel sigma (autodp is not installed)'],
}
RULES = {
    'C20': 'one run = one primitive x option vector x quality vector, called 1-3 times on the same caller objects; measure = digest of (primitive, options, '
           'score-vector class: size bucket / ties / spread / magnitude, call count); non-trivial = >= 3 candidates with non-constant scores (selection primitives) '
           'or a vector-valued noise draw',
}
ASSUMPTIONS = {
    'C20': ['reference probabilities computed in numpy longdouble log space; compared in log space where p > 1e-300 with tolerance 1e-12 + 8*eps_mach*|coef*eps/sens|*max|q|',
            'permute_and_flip defines a different law and is not anchored by the property: excluded; generalized_exponential_mechanism is checked relative to its own scores '
            '(generalized_em_scores of the tree under test): candidate i must be handed to the PRNG with probability proportional to base_i * exp(eps * score_i / 2)',
            'array qualities with a base measure are not generated (only the dict form documents the base measure as a measure)'],
}
TIERS = {
    'C20': {'quick': dict(runs=32000, budget_s=300, hashseeds=4, minimise_s=45),
            'thorough': dict(runs=None, budget_s=420, hashseeds=16, minimise_s=120)},
}
RUN_LIMIT_S = {'C20': 30}
KINDS = ['mech-array', 'mech-dict', 'mech-dict-base', 'mst', 'adagrid', 'mwem', 'scale', 'noise', 'best', 'gem-dict']
P_MWEM_SCALES = 0.01       # end-to-end mwem_pgm runs (bounded vs unbounded noise scales): ~50 ms each


def gen_q(rnd, n):
    mag = rnd.choice([1.0, 1.0, 10.0, 1e3, 1e6])
    style = rnd.choice(['gauss', 'ties', 'ints', 'const', 'spread'])
    if style == 'gauss':
        q = [rnd.gauss(0, mag) for _ in range(n)]
    elif style == 'ties':
        vals = [rnd.gauss(0, mag) for _ in range(max(1, n // 2))]
        q = [rnd.choice(vals) for _ in range(n)]
    elif style == 'ints':
        q = [float(rnd.randint(-5, 5)) * (mag if mag < 1e3 else 1.0) for _ in range(n)]
    elif style == 'const':
        q = [mag] * n
    else:
        q = [rnd.choice([-1.0, 1.0]) * mag * rnd.random() ** 3 for _ in range(n)]
    return q, style, mag


def gen_case(rnd, prop, tier):
    kind = rnd.choice(KINDS)
    if rnd.random() < P_MWEM_SCALES:
        return dict(engine='G', kind='mwem-scales', q=[0.0], style='none', mag=0, eps=rnd.choice([0.1, 1.0, 3.0, 10.0]), sens=1.0, calls=1, shift=0.0, idx_seed=rnd.getrandbits(32),
                    bounded=True, noise=rnd.choice(['laplace', 'gaussian', 'normal']), rounds=rnd.choice([1, 2, 3, 4]), delta=rnd.choice([1e-9, 1e-6]),
                    alpha=rnd.choice([0.9, 0.5]), wl_seed=rnd.getrandbits(32), nrec=rnd.choice([5, 40]))
    n = rnd.choice([1, 2, 3, 3, 5, 8, 20])
    q, style, mag = gen_q(rnd, n)
    c = dict(engine='G', kind=kind, q=q, style=style, mag=mag, eps=rnd.choice([0.01, 0.1, 1.0, 1.0, 3.0, 10.0]),
             sens=rnd.choice([1.0, 1.0, 2.0, 0.5, 7.0]), calls=rnd.choice([1, 1, 2, 3]), shift=rnd.choice([0.0, 0.0, 5.0, -1e3, 1e6]),
             idx_seed=rnd.getrandbits(32), bounded=rnd.random() < 0.5)
    if kind in ('mst', 'adagrid'):
        c['monotonic'] = rnd.random() < 0.5
        c['dtype'] = rnd.choice(['float', 'float', 'int']) if style == 'ints' else 'float'
        if kind == 'adagrid' and rnd.random() < 0.1:
            c['eps'] = 'inf'
            c['sens'] = 1.0
    if kind.startswith('mech-dict'):
        c['keys'] = ['k%d' % i if rnd.random() < 0.5 else ('a%d' % i, 'b') for i in range(n)]
        c['order'] = rnd.sample(range(n), n)          # insertion order of the qualities dict
        if kind == 'mech-dict-base':
            c['base'] = [rnd.choice([1.0, 1.0, 2.0, 0.25, 10.0, 1e-3, 1e-200, 0.0]) for _ in range(n)]
            if not any(b > 0 for b in c['base']):
                c['base'][0] = 1.0
            c['base_order'] = rnd.sample(range(n), n)     # insertion order of the base-measure dict (may differ)
    if kind == 'gem-dict':
        c['keys'] = ['k%d' % i if rnd.random() < 0.5 else ('a%d' % i, 'b') for i in range(n)]
        c['order'] = rnd.sample(range(n), n)
        c['sens_each'] = [rnd.choice([1.0, 1.0, 2.0, 0.5, 6.0]) for _ in range(n)]
        c['t'] = rnd.choice([None, None, 0.0, 1.5])
        c['base'] = None
        if rnd.random() < 0.6:
            c['base'] = [rnd.choice([1.0, 1.0, 2.0, 0.25, 10.0, 12.0, 1e-3]) for _ in range(n)]      # unnormalised measures (e.g. marginal sizes)
            if rnd.random() < 0.3:
                tot = sum(c['base'])
                c['base'] = [b / tot for b in c['base']]                                          # a normalised measure
        c['base_order'] = rnd.sample(range(n), n)
    if kind == 'mwem':
        n = max(2, min(n, 5))
        c['n'] = n
        c['penalty'] = rnd.random() < 0.5
        c['wl_seed'] = rnd.getrandbits(32)
        c['extra_answered'] = rnd.choice([0, 0, 1, 2])
    if kind == 'scale':
        c['toggle'] = rnd.random() < 0.4       # the adjacency flag takes its final value after construction
        c['l'] = rnd.choice([1.0, 2.0, 0.5, 3.7])
        c['delta'] = rnd.choice([1e-9, 1e-6, 1e-3])
    if kind == 'best':
        c['reqs'] = [[rnd.choice([1.0, 2.0, 50.0]), rnd.choice([1.0, 1.0, 7.0]), rnd.choice([0.05, 0.1, 1.0, 10.0])] for _ in range(rnd.choice([1, 2, 3]))]
        c['size'] = rnd.choice([1, 3, 16])
    if kind == 'noise':
        c['size'] = rnd.choice([1, 2, 7, 64])
        c['scale'] = rnd.choice([0.1, 1.0, 3.3, 250.0])
        c['dist'] = rnd.choice(['gaussian', 'laplace'])
    return c


def sample_view(case):
    return case


_mech = {}


def get_mech(bounded, rng):
    """Mechanism.__init__ runs cdp_rho (a 1000x1000-step binary search, ~1 s): build one object per process and swap its prng."""
    if bounded not in _mech:
        M = core.load_mechanism('mechanism')
        _mech[bounded] = M.Mechanism(1.0, 1e-6, bounded, prng=rng)
    m = _mech[bounded]
    m.prng = rng
    m.bounded = bounded
    return m


def ref_logp(q, coef_c, logbase=None):
    """log of softmax(coef_c*q + logbase) in extended precision."""
    q = np.asarray(q, dtype=np.longdouble)
    s = np.longdouble(coef_c) * (q - q.max())
    if logbase is not None:
        s = s + np.asarray(logbase, dtype=np.longdouble)
    m = s[np.isfinite(s)].max()
    z = m + np.log(np.sum(np.exp(s - m)))
    return np.asarray(s - z, dtype=float)


def check_p(ev, qv, coef_c, tag, viol, sigbase, logbase=None):
    p = ev['p']
    if p is None or ev['n'] != len(qv):
        viol.append(Violation('c20-seam', sigbase + ':seam', 'choice called with n=%r, p=%s for %d candidates (%s)' % (ev['n'], 'None' if p is None else 'given', len(qv), tag)).as_dict())
        return
    want = ref_logp(qv, coef_c, logbase)
    tol = 1e-12 + 8 * np.finfo(float).eps * abs(coef_c) * max(1.0, float(np.max(np.abs(qv)))) + 1e-12 * np.abs(want)
    mask = (np.exp(want) > 1e-300) | (p > 1e-300)
    with np.errstate(divide='ignore'):
        got = np.log(p)
    bad = mask & ~(np.abs(got - want) <= tol + 1e-9 * (want < -600))
    if bad.any():
        j = int(np.argmax(bad))
        viol.append(Violation('c20-probability', sigbase + ':probability', 'candidate %d gets log-probability %.12g, the definition gives %.12g (coef*eps/sens=%g, %s)' % (
            j, got[j], want[j], coef_c, tag), {'p': p.tolist()[:10]}).as_dict())


def run_case(case, prop):
    core.load_mbi()
    viol, faults, probes = [], {}, {}
    kind = case['kind']
    rnd = random.Random(case['idx_seed'])
    rng = SimRNG(rnd, {'rates': {'argmin': 0.2, 'last': 0.2}})
    steps = 0
    q = np.array(case['q'], dtype=float)
    eps = float('inf') if case['eps'] == 'inf' else float(case['eps'])
    sens = float(case['sens'])
    tagbase = 'kind=%s eps=%s sens=%s n=%d' % (kind, case['eps'], sens, len(q))
    try:
        with np.errstate(all='ignore'):
            if kind in ('mech-array', 'mech-dict', 'mech-dict-base', 'scale', 'noise', 'best'):
                if kind == 'scale' and case.get('toggle'):
                    mech = get_mech(not case['bounded'], rng)
                    mech.bounded = case['bounded']
                    faults['bounded-set-after-construction'] = 1
                else:
                    mech = get_mech(case['bounded'], rng)
            if kind == 'mech-array':
                arr = q.copy()
                for k in range(case['calls']):
                    use = arr if k == 0 or case['shift'] == 0 else arr + case['shift']
                    keep = use.copy()
                    n0 = len(rng.events)
                    ret = mech.exponential_mechanism(use, eps, sens)
                    steps += 1
                    ev = one_choice(rng, n0, 'Mechanism.exponential_mechanism', viol, 'mech-array')
                    if ev is None:
                        break
                    check_p(ev, keep, 0.5 * eps / sens, tagbase + ' call#%d%s' % (k, ' shifted' if use is not arr else ''), viol, 'mech-array')
                    if int(ret) != int(ev['idx'][0]):
                        viol.append(Violation('c20-return', 'mech-array:return', 'returned %r but the PRNG chose index %d' % (ret, int(ev['idx'][0]))).as_dict())
                    if not np.array_equal(use, keep):
                        viol.append(Violation('c20-input-mutated', 'mech-array:input-mutated', 'the caller\'s quality array was modified by call #%d' % k).as_dict())
                        break
            elif kind in ('mech-dict', 'mech-dict-base'):
                keys = [tuple(k) if isinstance(k, list) else k for k in case['keys']]
                qd = {keys[i]: float(q[i]) for i in case['order']}
                base = None
                if kind == 'mech-dict-base':
                    base = {keys[i]: case['base'][i] for i in case['base_order']}
                    if case['base_order'] != case['order']:
                        probes['base-measure-different-insertion-order'] = 1
                for k in range(case['calls']):
                    n0 = len(rng.events)
                    ret = mech.exponential_mechanism(qd, eps, sens, base_measure=base)
                    steps += 1
                    ev = one_choice(rng, n0, 'Mechanism.exponential_mechanism', viol, kind)
                    if ev is None:
                        break
                    order = list(qd.keys())
                    qv = np.array([qd[kk] for kk in order])
                    with np.errstate(divide='ignore'):
                        lb = None if base is None else np.log(np.array([base[kk] for kk in order], dtype=float))
                    check_p(ev, qv, 0.5 * eps / sens, tagbase + ' call#%d' % k, viol, kind, lb)
                    if ret != order[int(ev['idx'][0])]:
                        viol.append(Violation('c20-return', kind + ':return', 'returned key %r but the PRNG chose candidate %r' % (ret, order[int(ev['idx'][0])])).as_dict())
            elif kind in ('mst', 'adagrid'):
                mod = core.load_mechanism('mst' if kind == 'mst' else 'adaptive_grid')
                arr = q.astype(int) if case.get('dtype') == 'int' else q.copy()
                coef = 1.0 if case['monotonic'] else 0.5
                for k in range(case['calls']):
                    use = arr if k == 0 or case['shift'] == 0 or kind == 'mst' and abs(case['shift']) >= 1e6 else arr + (int(case['shift']) if arr.dtype.kind == 'i' else case['shift'])
                    keep = use.copy()
                    n0 = len(rng.events)
                    if (k + len(q)) % 2 == 0:
                        ret = mod.exponential_mechanism(use, eps, sens, prng=rng, monotonic=case['monotonic'])
                    else:
                        ret = mod.exponential_mechanism(use, eps, sens, rng, case['monotonic'])      # documented positional order
                        faults['positional-call'] = faults.get('positional-call', 0) + 1
                    steps += 1
                    ev = one_choice(rng, n0, '%s.exponential_mechanism' % kind, viol, kind)
                    if ev is None:
                        break
                    tag = tagbase + ' monotonic=%s call#%d%s' % (case['monotonic'], k, ' shifted' if use is not arr else '')
                    if eps == float('inf'):
                        want = (keep == keep.max()).astype(float)
                        want /= want.sum()
                        if not np.allclose(ev['p'], want, atol=1e-12):
                            viol.append(Violation('c20-probability', 'adagrid:probability:eps-inf', 'eps=inf must select uniformly among the maximisers; got p=%s (%s)' % (ev['p'].tolist()[:8], tag)).as_dict())
                        probes['eps-inf'] = 1
                    else:
                        check_p(ev, keep.astype(float), coef * eps / sens, tag, viol, kind + (':monotonic' if case['monotonic'] else ''))
                    if int(ret) != int(ev['idx'][0]):
                        viol.append(Violation('c20-return', kind + ':return', 'returned %r but the PRNG chose index %d' % (ret, int(ev['idx'][0]))).as_dict())
                    if not np.array_equal(use, keep):
                        viol.append(Violation('c20-input-mutated', kind + ':input-mutated', 'the caller\'s quality array was modified by call #%d' % k).as_dict())
                        break
            elif kind == 'mwem':
                run_mwem(case, rng, eps, viol, probes, tagbase)
                steps += case['calls']
            elif kind == 'mwem-scales':
                steps += run_mwem_scales(case, viol, probes)
            elif kind == 'gem-dict':
                mech = get_mech(case['bounded'], rng)
                M = core.load_mechanism('mechanism')
                keys = [tuple(k) if isinstance(k, list) else k for k in case['keys']]
                qd = {keys[i]: float(q[i]) for i in case['order']}
                sd = {keys[i]: float(case['sens_each'][i]) for i in case['order']}
                base = None if case['base'] is None else {keys[i]: case['base'][i] for i in case['base_order']}
                for k in range(case['calls']):
                    n0 = len(rng.events)
                    ret = mech.generalized_exponential_mechanism(qd, sd, eps, t=case['t'], base_measure=base)
                    steps += 1
                    ev = one_choice(rng, n0, 'Mechanism.generalized_exponential_mechanism', viol, kind)
                    if ev is None:
                        break
                    order = list(qd.keys())
                    t = case['t'] if case['t'] is not None else 2 * np.log(len(order) / 0.5) / eps
                    scores = np.asarray(M.generalized_em_scores(np.array([qd[kk] for kk in order]), np.array([sd[kk] for kk in order]), t), dtype=float)
                    lb = None if base is None else np.log(np.array([base[kk] for kk in order], dtype=float))
                    if not np.all(np.isfinite(scores)):
                        probes['gem-scores-not-finite'] = 1
                        break
                    check_p(ev, scores, 0.5 * eps, tagbase + ' call#%d t=%s base=%s' % (k, case['t'], 'yes' if base else 'no'), viol, kind + (':base' if base else ''), lb)
                    if ret != order[int(ev['idx'][0])]:
                        viol.append(Violation('c20-return', kind + ':return', 'returned key %r but the PRNG chose candidate %r' % (ret, order[int(ev['idx'][0])])).as_dict())
            elif kind == 'scale':
                b = mech.laplace_noise_scale(case['l'], eps)
                want = case['l'] * (2.0 if case['bounded'] else 1.0) / eps
                if not np.isclose(b, want, rtol=1e-12):
                    viol.append(Violation('c20-scale', 'scale:laplace', 'laplace_noise_scale(%g, %g) with bounded=%s returned %r, expected %r' % (case['l'], eps, case['bounded'], b, want)).as_dict())
                from autodp import privacy_calibrator
                g = mech.gaussian_noise_scale(case['l'], eps, case['delta'])
                wantg = case['l'] * (2.0 if case['bounded'] else 1.0) * privacy_calibrator.SENTINEL_SIGMA
                if not np.isclose(g, wantg, rtol=1e-12):
                    viol.append(Violation('c20-scale', 'scale:gaussian', 'gaussian_noise_scale(%g, ...) with bounded=%s returned %r, expected sensitivity x calibrated sigma = %r' % (case['l'], case['bounded'], g, wantg)).as_dict())
                steps += 2
            elif kind == 'best':
                from autodp import privacy_calibrator
                samplers = []
                for l1, l2, e_ in case['reqs']:
                    samplers.append((mech.best_noise_distribution(l1, l2, e_, 1e-6), l1, l2, e_))
                mult = 2.0 if case['bounded'] else 1.0
                for k, (smp, l1, l2, e_) in enumerate(samplers):       # every sampler is used only after all of them were created
                    b, sg = l1 * mult / e_, l2 * mult * privacy_calibrator.SENTINEL_SIGMA
                    want_kind, want_scale = ('laplace', b) if np.sqrt(2) * b < sg else ('normal', sg)
                    n0 = len(rng.events)
                    smp(case['size'])
                    steps += 1
                    evs = rng.events[n0:]
                    if len(evs) != 1 or evs[0]['kind'] != want_kind or evs[0]['n'] != case['size'] or not np.isclose(float(np.max(np.asarray(evs[0]['scale']))), want_scale, rtol=1e-12):
                        viol.append(Violation('c20-noise', 'best-noise:scale', 'sampler #%d of %d returned by best_noise_distribution(l1=%g, l2=%g, eps=%g) drew %s, calibrated %s with scale %r' % (
                            k, len(samplers), l1, l2, e_, [(e['kind'], e['n'], e['scale']) for e in evs], want_kind, want_scale)).as_dict())
                        break
                if len(samplers) > 1:
                    faults['samplers-used-after-later-requests'] = 1
            elif kind == 'noise':
                n0 = len(rng.events)
                fn = mech.gaussian_noise if case['dist'] == 'gaussian' else mech.laplace_noise
                x = fn(case['scale'], case['size'])
                steps += 1
                evs = rng.events[n0:]
                want_kind = 'normal' if case['dist'] == 'gaussian' else 'laplace'
                if len(evs) != 1 or evs[0]['kind'] != want_kind or evs[0]['n'] != case['size'] or evs[0]['scale'] != case['scale']:
                    viol.append(Violation('c20-noise', 'noise:' + case['dist'], '%s_noise(%g, %d) drew %s' % (case['dist'], case['scale'], case['size'],
                                          [(e['kind'], e['n'], e['scale']) for e in evs])).as_dict())
                elif np.shape(x) != (case['size'],) or not np.allclose(np.asarray(x), evs[0]['z'] * case['scale'], rtol=1e-12, atol=0):
                    viol.append(Violation('c20-noise', 'noise:' + case['dist'] + ':value', 'the returned noise is not the drawn sample (scaled or shifted after drawing)').as_dict())
    except HarnessError:
        raise
    except Exception as e:
        tb = traceback.format_exc()
        if core.REPO not in tb and 'sim/rng.py' not in tb:
            raise
        viol.append(Violation('c20-well-defined', '%s:exception:%s' % (kind, type(e).__name__), '%s raised %s: %s (%s, |q| up to %g)' % (
            kind, type(e).__name__, str(e)[:150], tagbase, float(np.max(np.abs(q))) if len(q) else 0)).as_dict())
    for k, v in rng.fired.items():
        faults['rng-' + k] = v
    if case['calls'] > 1:
        faults['repeated-call-same-objects'] = 1
    nontrivial = (case['rounds'] >= 2) if kind == 'mwem-scales' else (len(q) >= 3 and len(set(case['q'])) > 1) if kind not in ('scale', 'noise', 'best') else ((kind == 'noise' and case['size'] > 1) or (kind == 'best' and len(case['reqs']) > 1))
    opts = [case.get('monotonic'), case.get('bounded') if kind in ('scale', 'mwem') else None, case.get('penalty'), case['eps'] == 'inf', case.get('dtype'),
            case.get('base_order') != case.get('order') if kind == 'mech-dict-base' else None]
    measure = [kind, opts, len(q) if len(q) < 8 else 'many', case['style'], case['mag'], case['calls'], case['shift'] != 0]
    seen, uniq = set(), []
    for v in viol:
        if v['sig'] not in seen:
            seen.add(v['sig'])
            uniq.append(v)
    return dict(violations=uniq, measure=measure, nontrivial=nontrivial, faults=faults, probes=probes, steps=steps,
                digest=core.digest([rng.summary(), [v['sig'] for v in uniq]]))


def one_choice(rng, n0, what, viol, sigbase):
    evs = rng.events[n0:]
    if len(evs) != 1 or evs[0]['kind'] != 'choice' or not evs[0]['single']:
        viol.append(Violation('c20-seam', sigbase + ':seam', '%s made %s instead of exactly one single choice() draw' % (what, [(e['kind'], e.get('m')) for e in evs])).as_dict())
        return None
    return evs[0]


def run_mwem(case, rng, eps, viol, probes, tagbase):
    mbi = core.load_mbi()
    mod = core.load_mechanism('mwem+pgm')
    r = random.Random(case['wl_seed'])
    attrs = ['a', 'b', 'c', 'd']
    sizes = [r.randint(2, 3) for _ in attrs]
    dom = mbi.Domain(attrs, sizes)
    import itertools
    pairs = [p for p in itertools.combinations(attrs, 2)]
    r.shuffle(pairs)
    workload = pairs[:case['n']]
    answered = pairs[:min(len(pairs), case['n'] + case.get('extra_answered', 0))]     # mwem_pgm answers the whole workload, candidates may be a strict subset
    model = mbi.GraphicalModel(dom, workload[:2], total=50.0)
    model.potentials = mbi.CliqueVector({cl: mbi.Factor(dom.project(cl), np.array([r.gauss(0, 1) for _ in range(dom.size(cl))])) for cl in model.cliques})
    answers = {cl: np.array([float(r.randint(0, 30)) for _ in range(dom.size(cl))]) for cl in answered}
    if len(answered) > len(workload):
        probes['candidates-strict-subset-of-answered-workload'] = 1
    bounded = case['bounded']
    for k in range(case['calls']):
        keep = {cl: a.copy() for cl, a in answers.items()}
        n0 = len(rng.events)
        with rng.installed():
            ret = mod.worst_approximated(answers, model, list(workload), eps, penalty=case['penalty'], bounded=bounded)
        ev = one_choice(rng, n0, 'worst_approximated', viol, 'mwem')
        if ev is None:
            return
        err = np.array([np.abs(answers[cl] - model.project(cl).datavector()).sum() - (dom.size(cl) if case['penalty'] else 0) for cl in workload])
        sens = 2.0 if bounded else 1.0
        check_p(ev, err, 0.5 * eps / sens, tagbase + ' bounded=%s penalty=%s call#%d' % (bounded, case['penalty'], k), viol, 'mwem' + (':bounded' if bounded else ''))
        if ret != workload[int(ev['idx'][0])]:
            viol.append(Violation('c20-return', 'mwem:return', 'returned %r but the PRNG chose %r' % (ret, workload[int(ev['idx'][0])])).as_dict())
        if any(not np.array_equal(answers[cl], keep[cl]) for cl in keep):
            viol.append(Violation('c20-input-mutated', 'mwem:input-mutated', 'workload answers modified').as_dict())
            return


def run_mwem_scales(case, viol, probes):
    """'double the sensitivity under bounded adjacency', end to end: mwem_pgm run on the same table with bounded=False and bounded=True under
    the same simulated outcomes; in every round the bounded run must draw its noise with exactly 2x (Laplace; L1 sensitivity) resp.
    sqrt(2)x (Gaussian; L2 sensitivity) the scale of the unbounded run."""
    import pandas as pd
    from engines import d_twin
    mbi = core.load_mbi()
    mod = d_twin.load('mwem')
    d_twin.capped_fi(mbi).CAP[0] = 5
    r = random.Random(case['wl_seed'])
    attrs = ['a', 'b', 'c']
    sizes = [r.randint(2, 3) for _ in attrs]
    recs = [[r.randrange(s_) for s_ in sizes] for _ in range(case['nrec'])]
    data = mbi.Dataset(pd.DataFrame(np.array(recs, dtype=int), columns=attrs), mbi.Domain(attrs, sizes))
    scales = {}
    for bounded in (False, True):
        rng = SimRNG(random.Random(case['idx_seed']), {'rates': {}})
        try:
            with rng.installed(), contextlib.redirect_stdout(io.StringIO()):
                mod.mwem_pgm(data, case['eps'], case['delta'], rounds=case['rounds'], pgm_iters=5, noise=case['noise'], bounded=bounded, alpha=case['alpha'])
        except Exception as e:
            viol.append(Violation('c20-exception', 'mwem-scales:exception:%s' % type(e).__name__, 'mwem_pgm(bounded=%s, noise=%s, rounds=%d) raised %s: %s' % (bounded, case['noise'], case['rounds'], type(e).__name__, e)).as_dict())
            return 0
        scales[bounded] = [(e['kind'], float(np.max(np.asarray(e['scale'], dtype=float)))) for e in rng.events if e['kind'] in ('normal', 'laplace')]
    u, b = scales[False], scales[True]
    probes['mwem-bounded-vs-unbounded-scales'] = 1
    if len(u) != len(b) or len(u) != case['rounds']:
        viol.append(Violation('c20-seam', 'mwem-scales:seam', 'rounds=%d: %d noise draws unbounded, %d bounded' % (case['rounds'], len(u), len(b))).as_dict())
        return len(u) + len(b)
    for k, ((ku, su), (kb, sb)) in enumerate(zip(u, b)):
        want = 2.0 if ku == 'laplace' else float(np.sqrt(2.0))
        if ku != kb or not (abs(sb / su - want) <= 1e-12 * want):
            viol.append(Violation('c20-scale', 'mwem-scales:bounded-factor', 'round %d of mwem_pgm(noise=%s, eps=%g, rounds=%d): %s scale %.12g under bounded adjacency, %.12g unbounded: factor %.12g instead of %.12g' % (
                k + 1, case['noise'], case['eps'], case['rounds'], kb, sb, su, sb / su, want)).as_dict())
            break
    return len(u) + len(b)


def shrink(case, prop):
    if case['kind'] == 'mwem-scales':
        if case['rounds'] > 1:
            c = copy.deepcopy(case)
            c['rounds'] -= 1
            yield c
        if case['nrec'] > 5:
            c = copy.deepcopy(case)
            c['nrec'] = 5
            yield c
        return
    if case['calls'] > 1:
        c = copy.deepcopy(case)
        c['calls'] = case['calls'] - 1
        yield c
    n = len(case['q'])
    if case['kind'] != 'mwem':
        for k in range(n):
            if n <= 1:
                break
            c = copy.deepcopy(case)
            del c['q'][k]
            for key in ('keys', 'base', 'sens_each'):
                if c.get(key) is not None:
                    del c[key][k]
            for key in ('order', 'base_order'):
                if key in c:
                    c[key] = [i - (1 if i > k else 0) for i in c[key] if i != k]
            yield c
    else:
        if case['n'] > 2:
            c = copy.deepcopy(case)
            c['n'] -= 1
            yield c
    if case['shift'] != 0:
        c = copy.deepcopy(case)
        c['shift'] = 0.0
        yield c
    rq = [float(round(v)) if abs(v) < 1e3 else v for v in case['q']]
    if rq != case['q']:
        c = copy.deepcopy(case)
        c['q'] = rq
        yield c
    small = [float(np.clip(v, -3, 3)) for v in case['q']]
    if small != case['q']:
        c = copy.deepcopy(case)
        c['q'] = small
        c['mag'] = 1.0
        yield c
    for key, val in (('eps', 1.0), ('sens', 1.0)):
        if case[key] != val:
            c = copy.deepcopy(case)
            c[key] = val
            yield c
    if 'order' in case and case['order'] != sorted(case['order']):
        c = copy.deepcopy(case)
        c['order'] = sorted(case['order'])
        yield c
    if 'base_order' in case and case['base_order'] != case['order']:
        c = copy.deepcopy(case)
        c['base_order'] = list(case['order'])
        yield c
    if 'base' in case and any(b != 1.0 for b in case['base']):
        c = copy.deepcopy(case)
        c['base'] = [1.0] * len(case['base'])
        yield c
    for key in ('monotonic', 'bounded', 'penalty'):
        if case.get(key):
            c = copy.deepcopy(case)
            c[key] = False
            yield c
