"""Engine E `sampler`: C11.  GraphicalModel.synthetic_data under the SimRNG: every choice /
shuffle outcome is decided by the simulator (faithful or adversarial but possible).
Oracles: row count, value ranges, zero support; sampling mode: chain-rule identity at the
seam (exact, no statistics); rounding mode: structural bound on clique-count error that does
not depend on the number of rows, for every outcome sequence.
"""
import copy
import random
import traceback

import numpy as np

from sim import core, gen, refmodel
from sim.core import Violation, HarnessError
from sim.rng import SimRNG
from engines import a_bp

NAME = 'sampler'
STEP_MEANING = 'RNG events (choice / shuffle calls) served to synthetic_data'
COMPONENTS = {
    'real': ['mbi.graphical_model.GraphicalModel.synthetic_data / project', 'mbi.dataset.Dataset', 'mbi.junction_tree.JunctionTree', 'pandas groupby', 'numpy'],
    'stub': ['np.random.choice / shuffle -> SimRNG (faithful and adversarial outcome policies)'],
}
RULES = {
    'C11': 'one run = one model (structure, potentials incl. -inf cells, total) x method x row count(s) x outcome policy; measure = digest of '
           '(hypergraph, method, rows class, policy, sequence of (event kind, group-size class)); non-trivial = model has a clique of >= 2 '
           'attributes (grouped path runs) and, in rounding mode, at least one top-up draw (extra > 0) happened',
}
ASSUMPTIONS = {
    'C11': ['adversarial outcomes are restricted to outcomes of positive probability (>= 1e-30); p = 0 is never selected',
            'sampling mode is decided by the chain-rule identity sum(log p[outcome]) == sum(log P(row)/total) over the recorded choice events, not by statistics',
            'rounding bound: E_k <= (1+1e-6) + (|dom S_j|/|dom pi_k|) E_j along the generation order (DESIGN.md Engine E); zero cells = cells where an input potential is -inf'],
}
TIERS = {
    'C11': {'quick': dict(runs=7200, budget_s=400, hashseeds=4, minimise_s=60),
            'thorough': dict(runs=None, budget_s=600, hashseeds=16, minimise_s=240)},
}
RUN_LIMIT_S = {'C11': 120}


def gen_huge_case(rnd):
    """an attribute with more than 2^16 values whose high codes carry all the mass (potentials are rebuilt from `huge` at run time)"""
    size = rnd.choice([66000, 70000, 131100])
    lo = size - rnd.choice([100, 4000])
    return dict(engine='E', kind='huge', attrs=['g', 'x'], sizes=[2, size], cliques=[['x'], ['g']], huge=dict(lo=lo, seed=rnd.getrandbits(32)), pots=None, pots2=None,
                total=rnd.choice([1.0, 500.0]), elim=None, method=rnd.choice(['round', 'sample']), rows=rnd.choice([50, 1000]), rows2=None, cache=None, roundtrip=None,
                policy=dict(name='faithful', rates={}, shuffle='random'), rng_seed=rnd.getrandbits(32), fold='harness')


def expand_huge(case):
    r = random.Random(case['huge']['seed'])
    size, lo = case['sizes'][1], case['huge']['lo']
    px = [float('-inf')] * lo + [r.gauss(0, 1.0) for _ in range(size - lo)]
    return dict(case, pots=[px, [r.gauss(0, 1.0), r.gauss(0, 1.0)]])


def gen_case(rnd, prop, tier):
    if rnd.random() < 0.01:
        return gen_huge_case(rnd)
    n = rnd.choice([1, 2, 3, 3, 4, 4, 5, 5, 6])
    attrs = gen.gen_names(rnd, n)
    sizes = gen.gen_sizes(rnd, n, max_size=4, max_joint=4096)
    cliques, kind = gen.gen_cliques(rnd, attrs, max_width=3)
    ninf = rnd.choice([0.0, 0.15, 0.4])
    scale = rnd.choice([0.5, 1.0, 3.0, 3.0, 12.0])      # 12: cells of probability ~1e-20 that adversarial outcomes still select
    witness = {a: rnd.randrange(s) for a, s in zip(attrs, sizes)}
    pots = []
    for cl in cliques:
        shape = [sizes[attrs.index(a)] for a in cl]
        pots.append(gen.gen_potential(rnd, shape, scale, ninf, [witness[a] for a in cl]))
    method = rnd.choice(['round', 'round', 'sample'])
    # large row counts are mostly not round numbers (a count just above a power of two, a count not divisible by small block counts)
    big = [100000, 262145, 300001, 600001] + ([1000000, 524289, 999999] if tier == 'thorough' else [])
    rows = rnd.choice([None, 1, 2, 7, 50, 1000, 1000] + ([rnd.choice(big)] if rnd.random() < 0.2 else [1000]))
    total = rnd.choice([1.0, 3.7, 10.0, 123.5, 1000.0]) if rows is None else rnd.choice([0.9, 1.0, 123.5, 1e6])
    if rows is None and rnd.random() < 0.1:
        total = 20000.9
    if rows is None and rnd.random() < 0.12:
        # the default row count is the integer part of the total: totals a hair below / above an integer (estimated totals are like that)
        total = rnd.choice([4.0, 42.0, 1000.0]) + rnd.choice([-1.0, 1.0]) * 10.0 ** -rnd.choice([7, 8, 10, 12])
    elim = a_bp.gen_elim(rnd, attrs)      # None / permutation / int mode (stochastic orders drawn from the SimRNG)
    if isinstance(elim, dict):
        elim['int'] = rnd.choice([2, 5, 10])
        if rnd.random() < 0.7 and n >= 4:
            # int mode only matters where orders differ in cost: chordless cycles over attributes of uneven size
            sizes = [rnd.choice([2, 2, 3, 4, 6]) for _ in attrs]
            while int(np.prod(sizes)) > 4096:
                sizes[rnd.randrange(n)] = 2
            cliques, kind = gen.gen_cliques(rnd, attrs, kind='cycle', max_width=3)
            witness = {a: witness[a] % sizes[attrs.index(a)] for a in attrs}
            pots = []
            for cl in cliques:
                shape = [sizes[attrs.index(a)] for a in cl]
                pots.append(gen.gen_potential(rnd, shape, scale, ninf, [witness[a] for a in cl]))
    pol = rnd.choice(['faithful', 'faithful', 'adv-low', 'adv-high', 'adv-first', 'mixed', 'many-min', 'many-const'])
    rates = {'faithful': {}, 'adv-low': {'nr_lowest': 1.0}, 'adv-high': {'nr_highest': 1.0}, 'adv-first': {'nr_first': 1.0},
             'mixed': {'nr_lowest': 0.3, 'nr_highest': 0.3, 'nr_first': 0.2, 'many_min': 0.2, 'many_const': 0.2},
             'many-min': {'many_min': 1.0}, 'many-const': {'many_const': 0.7}}[pol]
    shuffle = rnd.choice(['random', 'random', 'identity', 'reverse'])
    rows2 = None
    cache = rnd.choice([None, None, 'many', 'bp'])
    if rows is not None and rnd.random() < (0.35 if cache is None else 0.8):
        rows2 = rnd.choice([100000, 20000]) if method == 'round' else rnd.choice([1, 7, 1000])
    pots2 = None
    if rows2 is not None and cache is None and rnd.random() < 0.5:
        # the model is re-parameterised (new potentials assigned) between the two calls on the same object
        pots2 = []
        for cl in cliques:
            shape = [sizes[attrs.index(a)] for a in cl]
            pots2.append(gen.gen_potential(rnd, shape, scale, ninf, [witness[a] for a in cl]))
    roundtrip = rnd.choice([None, None, None, 'pickle', 'deepcopy'])
    if roundtrip and n >= 4 and rnd.random() < 0.6:
        # a model built with a caller-chosen elimination order on a cyclic structure, copied / pickled before it is sampled
        elim = list(attrs)
        rnd.shuffle(elim)
        sizes = [rnd.choice([2, 2, 3, 6, 8]) for _ in attrs]          # uneven sizes: the cheapest variable to eliminate need not be simplicial
        while int(np.prod(sizes)) > 4096:
            sizes[rnd.randrange(n)] = 2
        witness = {a: witness[a] % sizes[attrs.index(a)] for a in attrs}
        cliques, kind = gen.gen_cliques(rnd, attrs, kind=rnd.choice(['cycle', 'chain', 'tree']), max_width=2)
        if rnd.random() < 0.6:
            deg = {a: sum(1 for cl in cliques if a in cl and len(cl) > 1) for a in attrs}
            sizes = [rnd.choice([6, 8]) if deg[a] == 1 else 2 for a in attrs]     # big leaves, small inner attributes
            while int(np.prod(sizes)) > 4096:
                sizes[sizes.index(max(sizes))] = 3
            witness = {a: witness[a] % sizes[attrs.index(a)] for a in attrs}
        pots = []
        for cl in cliques:
            shape = [sizes[attrs.index(a)] for a in cl]
            pots.append(gen.gen_potential(rnd, shape, scale, ninf, [witness[a] for a in cl]))
        pots2 = None
    return dict(engine='E', attrs=attrs, sizes=sizes, cliques=cliques, kind=kind, pots=pots, pots2=pots2, total=total, elim=elim, method=method,
                rows=rows, rows2=rows2, cache=cache, roundtrip=roundtrip, policy=dict(name=pol, rates=rates, shuffle=shuffle), rng_seed=rnd.getrandbits(32), fold='harness', layout=rnd.choice(['C', 'C', 'C', 'F']), key_order=rnd.choice([None, None, 'reversed', 'sorted']))


def sample_view(case):
    c = dict(case)
    c['pots'] = '<%d potential tables>' % len(case['pots']) if case.get('pots') else None
    return c


def rounding_bounds(model, sizes_of):
    """structure-only bound on the max-cell count error of every generated scope S_k."""
    order = list(model.elimination_order)[::-1]
    cliques = [set(cl) for cl in model.cliques]
    used, S, E, gen_pos = [], {}, {}, {}
    one = 1.0 + 1e-6
    for k, col in enumerate(order):
        rel = set()
        for cl in cliques:
            if col in cl:
                rel |= cl
        pi = [a for a in used if a in rel]
        S[col] = set(pi) | {col}
        if not pi:
            E[col] = one
        else:
            j = max(pi, key=lambda a: gen_pos[a])
            dom_sj = float(np.prod([sizes_of[a] for a in S[j]]))
            dom_pi = float(np.prod([sizes_of[a] for a in pi]))
            if not set(pi) <= S[j]:
                return None, None
            E[col] = one + (dom_sj / dom_pi) * E[j]
        gen_pos[col] = k
        used.append(col)
    return S, E


def make_model(mbi, case, probes):
    model, _ = a_bp.build(mbi, case, case['elim'], 'C11')
    model.potentials = a_bp.fold(mbi, case, model)
    with np.errstate(all='ignore'):
        if case.get('cache') == 'bp':       # what the estimators leave behind
            model.marginals = model.belief_propagation(model.potentials)
        elif case.get('cache') == 'many':   # what a bulk query leaves behind
            model.calculate_many_marginals([tuple(case['attrs'][:2])])
    if hasattr(model, 'marginals'):
        probes['model-with-cached-marginals'] = 1
    if case.get('roundtrip'):
        import pickle, copy as _copy
        model = pickle.loads(pickle.dumps(model)) if case['roundtrip'] == 'pickle' else _copy.deepcopy(model)
        probes['model-through-' + case['roundtrip']] = 1
    return model


def model_state(model):
    parts = [core.arr_digest(model.potentials[cl].values) for cl in model.cliques]
    if hasattr(model, 'marginals'):
        parts += [core.arr_digest(model.marginals[cl].values) for cl in model.cliques]
    return parts


def factorisation_violation(model, attrs, sizes, P, tag):
    """synthetic_data generates column k from P(col_k | parents_k) with parents_k = already generated attributes that share a
    model clique with col_k, in reverse elimination order.  That scheme realises the model iff the product of those
    conditionals is the joint; checked here on the explicit joint (what a faithful sampler would converge to)."""
    order = list(model.elimination_order)[::-1]
    if sorted(order) != sorted(attrs):
        return Violation('syn-factorisation', 'syn-factorisation', 'model.elimination_order %s is not a permutation of the attributes (%s)' % (order, tag))
    cliques = [set(cl) for cl in model.cliques]
    used = []
    Q = np.ones(tuple(sizes))
    for col in order:
        rel = set()
        for cl in cliques:
            if col in cl:
                rel |= cl
        parents = [a for a in used if a in rel]
        scope = parents + [col]
        M = refmodel.marginal_p(P, attrs, scope)
        den = M.sum(axis=-1, keepdims=True)
        with np.errstate(divide='ignore', invalid='ignore'):
            C = np.where(den > 0, M / den, 0.0)
        # bring C (axes in `scope` order) to domain order and broadcast
        kept = [a for a in attrs if a in scope]
        Cd = np.transpose(C, [scope.index(a) for a in kept]) if len(scope) > 1 else C
        Q = Q * Cd.reshape([sizes[i] if a in scope else 1 for i, a in enumerate(attrs)])
        used.append(col)
    err = float(np.max(np.abs(Q - P)))
    if err > 1e-9:
        return Violation('syn-factorisation', 'syn-factorisation', 'the conditionals synthetic_data uses (reverse elimination order %s, parents = generated attributes sharing a model clique) '
                         'do not multiply to the model\'s joint: max cell difference %.3g of probability (%s)' % (order, err, tag))
    return None


def run_once(mbi, case, model, rows, viol, faults, probes, seqs, tag, key='pots'):
    attrs, sizes, total = case['attrs'], case['sizes'], case['total']
    pots_in = [(cl, np.array(case[key][k], dtype=float).reshape(gen.clique_shape(case, cl))) for k, cl in enumerate(case['cliques'])]
    logp = refmodel.joint_logp(attrs, sizes, pots_in)
    z = refmodel.lse(logp)
    logP = logp - z      # log of the normalised joint
    fv = factorisation_violation(model, attrs, sizes, np.exp(logP), tag)
    if fv is not None:
        viol.append(fv.as_dict())
        return SimRNG(random.Random(0), {})
    rng = SimRNG(random.Random(case['rng_seed']), case['policy'])
    want_rows = int(total) if rows is None else rows
    try:
        with rng.installed(), np.errstate(all='ignore'):
            ds = model.synthetic_data(rows=rows, method=case['method'])
    except HarnessError:
        raise
    except Exception as e:
        tb = traceback.format_exc()
        if core.REPO not in tb:
            raise
        where = [ln.strip() for ln in tb.splitlines() if 'File "%s' % core.REPO in ln]
        fn = where[-1].split(' in ')[-1] if where else '?'
        viol.append(Violation('no-exception', 'exception:synthetic_data:%s:%s' % (type(e).__name__, fn),
                              'synthetic_data(rows=%r, method=%r) raised %s: %s (%s)' % (rows, case['method'], type(e).__name__, str(e)[:200], tag)).as_dict())
        return rng
    if rng.untracked:
        raise HarnessError('untracked noise use: %s' % rng.untracked[:3])
    for k, v in rng.fired.items():
        faults['rng-' + k] = faults.get('rng-' + k, 0) + v
    df = ds.df
    if list(df.columns) != list(attrs) or tuple(ds.domain.attrs) != tuple(attrs) or tuple(ds.domain.shape) != tuple(sizes):
        viol.append(Violation('syn-columns', 'syn-columns', 'columns %s / domain %s differ from the model domain %s (%s)' % (list(df.columns), ds.domain, attrs, tag)).as_dict())
        return rng
    if df.shape[0] != want_rows:
        viol.append(Violation('syn-rows', 'syn-rows', '%d rows returned, %d requested (%s)' % (df.shape[0], want_rows, tag)).as_dict())
        return rng
    vals = df.values
    if vals.size and (not np.issubdtype(vals.dtype, np.integer)):
        if not np.all(np.equal(np.mod(vals.astype(float), 1), 0)):
            viol.append(Violation('syn-range', 'syn-integer', 'non-integer values in synthetic data (%s)' % tag).as_dict())
            return rng
        vals = vals.astype(int)
    if vals.size and (vals.min() < 0 or np.any(vals.max(axis=0) >= np.array(sizes))):
        viol.append(Violation('syn-range', 'syn-range', 'value outside its attribute domain (%s)' % tag).as_dict())
        return rng
    if want_rows == 0:
        return rng
    cell_logp = logP[tuple(vals.T)]
    if np.any(np.isneginf(cell_logp)):
        bad = vals[np.isneginf(cell_logp)][0]
        viol.append(Violation('syn-zero-support', 'syn-zero-support:' + case['method'], 'record %s lies in a cell of model probability 0 (%s, policy %s)' % (
            dict(zip(attrs, bad.tolist())), tag, case['policy']['name'])).as_dict())
        return rng
    choice_events = [ev for ev in rng.events if ev['kind'] == 'choice']
    seqs.append([(ev['kind'], int(np.log2(max(ev.get('m', ev.get('n', 1)), 1)))) for ev in rng.events][:40])
    if case['method'] == 'sample':
        lhs = 0.0
        for ev in choice_events:
            if ev['p'] is None:
                raise HarnessError('choice without p in sample mode')
            lhs += float(np.sum(np.log(ev['p'][np.asarray(ev['idx']).reshape(-1)])))
        rhs = float(np.sum(cell_logp))
        if not np.isfinite(lhs) or abs(lhs - rhs) > 1e-7 * (abs(rhs) + 1.0) + 1e-6:
            viol.append(Violation('syn-chain-rule', 'syn-chain-rule', 'sum log p[outcome] over the choice events = %.9g but sum log P(row)/total = %.9g: '
                                  'the conditionals handed to the PRNG are not the model\'s (%s)' % (lhs, rhs, tag)).as_dict())
        other = [ev['kind'] for ev in rng.events if ev['kind'] != 'choice']
        if other:
            viol.append(Violation('syn-sample-seam', 'syn-sample-seam', 'sampling mode drew %s besides choice(): records are no longer one categorical draw per column and row (%s)' % (sorted(set(other)), tag)).as_dict())
    else:
        sizes_of = dict(zip(attrs, sizes))
        S, E = rounding_bounds(model, sizes_of)
        if S is None:
            # the conditionals multiply to the joint only because of these particular potentials (e.g. size-1 attributes), the structural
            # recursion behind the bound does not apply: the run keeps its row / range / zero-support checks and skips the bound
            probes['round-bound-not-applicable'] = probes.get('round-bound-not-applicable', 0) + 1
            return rng
        if any(ev['kind'] == 'choice' and not ev['replace'] and ev['m'] > 0 for ev in rng.events):
            probes['round-top-up'] = probes.get('round-top-up', 0) + 1
        P = np.exp(logP)
        worst = 0.0
        for cl in model.cliques:
            bound = None
            for col, s in S.items():
                if s == set(cl):
                    bound = E[col]
            if bound is None:
                probes['clique-not-a-scope'] = 1
                cands = [(float(np.prod([sizes_of[a] for a in s])) / float(np.prod([sizes_of[a] for a in cl]))) * E[col] for col, s in S.items() if set(cl) <= s]
                if not cands:
                    raise HarnessError('model clique %s inside no generated scope' % (cl,))
                bound = min(cands)
            expect = want_rows * refmodel.marginal_p(P, attrs, cl)
            cols = [attrs.index(a) for a in cl]
            cnt = np.zeros([sizes_of[a] for a in cl])
            np.add.at(cnt, tuple(vals[:, cols].T), 1)
            err = float(np.max(np.abs(cnt - expect)))
            worst = max(worst, err / bound)
            if err > bound:
                viol.append(Violation('syn-round-bound', 'syn-round-bound', 'rounding mode: counts on clique %s are off by %.4g > structural bound %.4g at %d rows (%s, policy %s)' % (
                    cl, err, bound, want_rows, tag, case['policy']['name'])).as_dict())
                break
        probes['round-err/bound>0.5'] = probes.get('round-err/bound>0.5', 0) + (1 if worst > 0.5 else 0)
    return rng


def run_case(case, prop):
    mbi = core.load_mbi()
    if case.get('kind') == 'huge':
        case = expand_huge(case)
    viol, faults, probes, seqs = [], {}, {}, []
    steps = 0
    nontrivial = False
    try:
        model = make_model(mbi, case, probes)
        state0 = model_state(model)
        rng = run_once(mbi, case, model, case['rows'], viol, faults, probes, seqs, 'rows=%r' % case['rows'])
        steps += len(rng.events)
        multi = any(len(cl) >= 2 for cl in case['cliques'])
        if case['method'] == 'sample':
            nontrivial = multi
        else:
            nontrivial = multi and probes.get('round-top-up', 0) > 0
        if case.get('rows2') and not viol:
            key = 'pots'
            if case.get('pots2'):
                model.potentials = a_bp.fold(mbi, dict(case, pots=case['pots2']), model)
                key = 'pots2'
                faults['model-reparameterised-between-calls'] = 1
            rng2 = run_once(mbi, case, model, case['rows2'], viol, faults, probes, seqs, 'rows=%r (second call on the same model object%s, same policy)' % (
                case['rows2'], ' after new potentials were assigned' if key == 'pots2' else ''), key=key)
            steps += len(rng2.events)
            probes['second-call-same-object'] = 1
            faults['model-object-reuse'] = 1
        dg = core.digest([rng.summary()[:200], [v['sig'] for v in viol]])
    except Violation as e:
        viol.append(e.as_dict())
        dg = core.digest([v['sig'] for v in viol])
    if any(np.isneginf(np.array(p, dtype=float)).any() for p in case['pots'] if len(p)):
        probes['zero-probability-cells'] = 1
    if case.get('kind') == 'huge':
        probes['attribute-with->65535-values'] = 1
    rc = 'default' if case['rows'] is None else ('1' if case['rows'] == 1 else ('small' if case['rows'] < 100 else ('1e3' if case['rows'] < 10000 else 'big')))
    measure = [a_bp.hypergraph(case), case['method'], rc, case['policy']['name'], case['policy']['shuffle'], seqs]
    seen, uniq = set(), []
    for v in viol:
        if v['sig'] not in seen:
            seen.add(v['sig'])
            uniq.append(v)
    return dict(violations=uniq, measure=measure, nontrivial=nontrivial, faults=faults, probes=probes, steps=steps, digest=dg)


def shrink(case, prop):
    if case.get('kind') == 'huge':
        return
    if case.get('roundtrip'):
        c = copy.deepcopy(case)
        c['roundtrip'] = None
        yield c
    if case.get('pots2'):
        c = copy.deepcopy(case)
        c['pots2'] = None
        yield c
    if case.get('rows2'):
        c = copy.deepcopy(case)
        c['rows2'] = None
        c['pots2'] = None
        yield c
        c = copy.deepcopy(case)
        c['rows'], c['rows2'] = case['rows2'], None
        yield c
    for k in range(len(case['cliques'])):
        yield gen.drop_index(case, 'cliques', k, also=('pots', 'pots2'))
    for a in case['attrs']:
        if len(case['attrs']) > 1:
            c = gen.drop_attr(case, a, pot_keys=(('cliques', 'pots'), ('cliques', 'pots2')))
            keep = [k for k, cl in enumerate(c['cliques']) if len(cl) > 0]
            c['cliques'] = [c['cliques'][k] for k in keep]
            c['pots'] = [c['pots'][k] for k in keep]
            if c.get('pots2'):
                c['pots2'] = [c['pots2'][k] for k in keep]
            if isinstance(c['elim'], list):
                c['elim'] = [x for x in c['elim'] if x != a]
            yield c
    for a, s in zip(case['attrs'], case['sizes']):
        for new in (1, 2):
            if s > new:
                yield gen.resize_attr(case, a, new, pot_keys=(('cliques', 'pots'), ('cliques', 'pots2')))
    if case['rows'] is not None:
        for r in (1, 2, 7, 50, 1000):
            if r < case['rows']:
                c = copy.deepcopy(case)
                c['rows'] = r
                yield c
    if case['policy']['rates']:
        c = copy.deepcopy(case)
        c['policy'] = dict(name='faithful', rates={}, shuffle=case['policy']['shuffle'])
        yield c
    if case['policy']['shuffle'] != 'identity':
        c = copy.deepcopy(case)
        c['policy']['shuffle'] = 'identity'
        yield c
    if case['elim'] is not None:
        c = copy.deepcopy(case)
        c['elim'] = None
        yield c
    if case['total'] not in (1.0, 10.0):
        c = copy.deepcopy(case)
        c['total'] = 10.0 if case['rows'] is None else 1.0
        yield c
    rounded = [[(v if not np.isfinite(v) else float(round(v))) for v in p] for p in case['pots']]
    if rounded != case['pots']:
        c = copy.deepcopy(case)
        c['pots'] = rounded
        yield c
    noinf = [[(0.0 if v == float('-inf') else v) for v in p] for p in case['pots']]
    if noinf != case['pots']:
        c = copy.deepcopy(case)
        c['pots'] = noinf
        yield c

    def ren(c, m):
        if isinstance(case['elim'], list):
            c['elim'] = [m[x] for x in case['elim']]
    c = gen.canon_names(case, extra=ren)
    if c is not None:
        yield c
