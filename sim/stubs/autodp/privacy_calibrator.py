"""STUB: returns a sentinel sigma so that Mechanism.gaussian_noise_scale can be observed at the seam."""
SENTINEL_SIGMA = 7.25


def ana_gaussian_mech(epsilon, delta, tol=1e-12):
    return {'sigma': SENTINEL_SIGMA, 'epsilon': epsilon, 'delta': delta}
