"""STUB of autodp (not installed in this sandbox). Only privacy_calibrator.ana_gaussian_mech is provided."""
from . import privacy_calibrator  # noqa: F401
