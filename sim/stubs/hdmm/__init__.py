"""STUB of hdmm (not installed in this sandbox). Only matrix.Identity is provided."""
from . import matrix  # noqa: F401
