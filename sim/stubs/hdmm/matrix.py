"""STUB: hdmm.matrix.Identity as a scipy LinearOperator identity (the only hdmm symbol aim.py uses)."""
import numpy as np
from scipy.sparse.linalg import LinearOperator


class Identity(LinearOperator):
    def __init__(self, n, dtype=np.float64):
        self.n = n
        super().__init__(dtype=np.dtype(dtype), shape=(n, n))

    def _matvec(self, x):
        return x

    def _matmat(self, X):
        return X

    def _rmatvec(self, x):
        return x

    def _adjoint(self):
        return self

    def _transpose(self):
        return self

    def dense_matrix(self):
        return np.eye(self.n)
