"""Reference models (oracles). Plain numpy on named axes; never uses mbi.Factor."""
import itertools
import math

import numpy as np


def lse(a, axis=None):
    """log-sum-exp that tolerates -inf and huge magnitudes."""
    a = np.asarray(a, dtype=float)
    m = np.max(a, axis=axis, keepdims=True)
    m = np.where(np.isfinite(m), m, 0.0)
    with np.errstate(divide='ignore'):
        out = np.log(np.sum(np.exp(a - m), axis=axis, keepdims=True)) + m
    if axis is None:
        return float(out.reshape(()))
    return np.squeeze(out, axis=axis)


def joint_logp(attrs, sizes, pots):
    """attrs: list of names (domain order), sizes: list, pots: list of (clique attrs, ndarray in that order)."""
    logp = np.zeros(tuple(sizes))
    for cl, arr in pots:
        arr = np.asarray(arr, dtype=float).reshape([sizes[attrs.index(a)] for a in cl])
        order = sorted(range(len(cl)), key=lambda i: attrs.index(cl[i]))
        a = np.transpose(arr, order) if len(cl) > 1 else arr
        shape = [sizes[i] if x in cl else 1 for i, x in enumerate(attrs)]
        logp = logp + a.reshape(shape)
    return logp


def marginal(logp, attrs, total, want):
    """marginal of total*softmax(logp) over `want` (tuple of names, returned in that order)."""
    want = tuple(want)
    axes = tuple(i for i, a in enumerate(attrs) if a not in want)
    z = lse(logp)
    m = lse(logp, axis=axes) if axes else logp
    kept = [a for a in attrs if a in want]
    out = total * np.exp(m - z)
    if len(want) > 1:
        out = np.transpose(out, [kept.index(a) for a in want])
    return out


def marginal_p(P, attrs, want):
    """marginal of an explicit joint array P (domain order) over want, in the requested order."""
    want = tuple(want)
    axes = tuple(i for i, a in enumerate(attrs) if a not in want)
    out = P.sum(axis=axes) if axes else P
    kept = [a for a in attrs if a in want]
    if len(want) > 1:
        out = np.transpose(out, [kept.index(a) for a in want])
    return out


def close(a, b, total, rtol=1e-7, atol_rel=1e-8):
    a, b = np.asarray(a, dtype=float), np.asarray(b, dtype=float)
    if a.shape != b.shape:
        return False
    if not (np.all(np.isfinite(a)) and np.all(np.isfinite(b))):
        return False
    return bool(np.all(np.abs(a - b) <= rtol * np.abs(b) + atol_rel * abs(total)))


def maxerr(a, b):
    a, b = np.asarray(a, dtype=float), np.asarray(b, dtype=float)
    if a.shape != b.shape:
        return float('inf')
    with np.errstate(invalid='ignore'):
        d = np.abs(a - b)
    return float(np.nanmax(d)) if d.size else 0.0


# ----------------------------------------------------------------------------- junction tree axioms
def jt_axioms(attrs, input_cliques, nodes, edges):
    """Return a list of (check id, message) for every violated junction-tree axiom.
    nodes: list of tuples; edges: list of (node, node)."""
    bad = []
    nodeset = [frozenset(n) for n in nodes]
    if len(set(nodes)) != len(nodes):
        bad.append(('jt-duplicate-node', 'a node appears twice: %s' % (nodes,)))
    for cl in input_cliques:
        if not any(set(cl) <= n for n in nodeset):
            bad.append(('jt-cover-clique', 'input clique %s is in no node' % (tuple(cl),)))
            break
    for a in attrs:
        if not any(a in n for n in nodeset):
            bad.append(('jt-cover-attr', 'attribute %s is in no node' % a))
            break
    for i, j in itertools.permutations(range(len(nodes)), 2):
        if nodeset[i] <= nodeset[j] and (nodeset[i] != nodeset[j] or i < j):
            bad.append(('jt-maximal', 'node %s is contained in node %s' % (nodes[i], nodes[j])))
            break
    # tree on exactly those nodes
    idx = {n: k for k, n in enumerate(nodes)}
    ok_edges = all(a in idx and b in idx for a, b in edges)
    if not ok_edges:
        bad.append(('jt-tree', 'an edge refers to an unknown node'))
        return bad
    if len(nodes) and len(edges) != len(nodes) - 1:
        bad.append(('jt-tree', '%d nodes but %d edges' % (len(nodes), len(edges))))
    parent = list(range(len(nodes)))

    def find(x):
        while parent[x] != x:
            parent[x] = parent[parent[x]]
            x = parent[x]
        return x
    for a, b in edges:
        ra, rb = find(idx[a]), find(idx[b])
        if ra == rb:
            bad.append(('jt-tree', 'edges contain a cycle'))
            break
        parent[ra] = rb
    if len(nodes) and len({find(k) for k in range(len(nodes))}) != 1 and not any(b[0] == 'jt-tree' for b in bad):
        bad.append(('jt-tree', 'not connected'))
    # running intersection: nodes containing a form a connected subtree
    adj = {k: set() for k in range(len(nodes))}
    for a, b in edges:
        adj[idx[a]].add(idx[b])
        adj[idx[b]].add(idx[a])
    for a in attrs:
        holders = [k for k in range(len(nodes)) if a in nodeset[k]]
        if not holders:
            continue
        seen, stack = {holders[0]}, [holders[0]]
        while stack:
            x = stack.pop()
            for y in adj[x]:
                if y not in seen and a in nodeset[y]:
                    seen.add(y)
                    stack.append(y)
        if len(seen) != len(holders):
            bad.append(('jt-running-intersection', 'nodes containing %s are not connected in the tree' % a))
            break
    return bad


def schedule_axioms(edges, order):
    """order must contain each direction of each edge once, each after the messages it depends on."""
    bad = []
    want = set()
    for a, b in edges:
        want.add((a, b))
        want.add((b, a))
    if len(order) != len(set(order)) or set(order) != want:
        bad.append(('sched-complete', 'schedule does not list each direction of each edge exactly once'))
        return bad
    pos = {m: k for k, m in enumerate(order)}
    for (i, j) in order:
        for (k, i2) in order:
            if i2 == i and k != j and pos[(k, i)] > pos[(i, j)]:
                bad.append(('sched-dependency', 'message %s->%s sent before %s->%s' % (i, j, k, i)))
                return bad
    return bad


def linear_extension(edges, rnd, break_at=None):
    """A seeded linear extension of the message dependency order (canonical ready-set order).
    break_at: if not None, deliberately violate one dependency (negative control)."""
    msgs = []
    for a, b in edges:
        msgs.append((a, b))
        msgs.append((b, a))
    msgs.sort()
    deps = {m: {(k, i) for (k, i) in msgs if i == m[0] and k != m[1]} for m in msgs}
    done, order = set(), []
    remaining = list(msgs)
    while remaining:
        ready = [m for m in remaining if deps[m] <= done]
        m = ready[rnd.randrange(len(ready))]
        order.append(m)
        done.add(m)
        remaining.remove(m)
    if break_at is not None:
        # move a message with dependencies in front of one of its dependencies
        cands = [m for m in order if deps[m]]
        if cands:
            m = cands[break_at % len(cands)]
            d = sorted(deps[m])[0]
            order.remove(m)
            order.insert(order.index(d), m)
    return order


# ----------------------------------------------------------------------------- privacy reference
def _delta_alpha(rho, eps, alpha):
    return math.exp((alpha - 1) * (alpha * rho - eps) + alpha * math.log1p(-1 / alpha)) / (alpha - 1.0)


def ref_cdp_delta(rho, eps):
    """Canonne-Kamath-Steinke: inf over alpha>1 of the Renyi bound (own implementation, no alpha clamp)."""
    if rho <= 0:
        return 0.0
    lo, hi = 1.0 + 1e-12, max((eps + 1) / (2 * rho) + 2, 2.0)
    # the log of the bound is convex in alpha: ternary search
    def f(a):
        return (a - 1) * (a * rho - eps) + a * math.log1p(-1 / a) - math.log(a - 1.0)
    for _ in range(300):
        m1 = lo + (hi - lo) / 3
        m2 = hi - (hi - lo) / 3
        if f(m1) < f(m2):
            hi = m2
        else:
            lo = m1
    a = (lo + hi) / 2
    return min(1.0, math.exp(f(a)))


def ref_cdp_rho(eps, delta):
    """sup{rho: ref_cdp_delta(rho, eps) <= delta}."""
    if delta >= 1:
        return float('inf')
    lo, hi = 0.0, eps + 1.0
    for _ in range(200):
        mid = (lo + hi) / 2
        if ref_cdp_delta(mid, eps) <= delta:
            lo = mid
        else:
            hi = mid
    return hi
