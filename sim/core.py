"""Core definitions shared by all engines: seeds, errors, repo loading, digests.

Nothing in here draws from a PRNG or reads a clock on a path that affects a run.
"""
import hashlib
import importlib
import importlib.util
import json
import os
import subprocess
import sys

VERIF_DIR = os.path.dirname(os.path.dirname(os.path.abspath(__file__)))
REPO = os.environ.get('VERIF_REPO', '/repo')


class HarnessError(Exception):
    """A fault of the harness itself (never reported as a VIOLATION)."""


class SimInterrupt(Exception):
    """Raised by an injected callback to interrupt a solver loop (cancellation fault)."""


class Violation(Exception):
    def __init__(self, check, sig, msg, detail=None):
        Exception.__init__(self, msg)
        self.check, self.sig, self.msg, self.detail = check, sig, msg, detail or {}

    def as_dict(self):
        return {'check': self.check, 'sig': self.sig, 'msg': self.msg, 'detail': self.detail}


def run_seed(verif_seed, prop, index):
    h = hashlib.blake2b(('%d|%s|%d' % (verif_seed, prop, index)).encode(), digest_size=8)
    return int.from_bytes(h.digest(), 'big')


def digest(obj):
    """Stable short digest of a JSON-able object."""
    s = json.dumps(obj, sort_keys=True, default=_default, allow_nan=True)
    return hashlib.blake2b(s.encode(), digest_size=8).hexdigest()


def _default(o):
    import numpy as np
    if isinstance(o, np.ndarray):
        return {'__nd__': o.shape, 'h': hashlib.blake2b(np.ascontiguousarray(o).tobytes(), digest_size=8).hexdigest()}
    if isinstance(o, (np.integer,)):
        return int(o)
    if isinstance(o, (np.floating,)):
        return float(o)
    if isinstance(o, (np.bool_,)):
        return bool(o)
    if isinstance(o, (set, frozenset)):
        return sorted(map(str, o))
    if isinstance(o, tuple):
        return list(o)
    return str(o)


def arr_digest(a):
    """digest for the cross-process event log: values quantised to float32, so that last-bit differences that
    BLAS / ARPACK kernels show between processes (memory alignment) do not change the log; decisions are unaffected."""
    import numpy as np
    with np.errstate(all='ignore'):
        a = np.ascontiguousarray(np.asarray(a, dtype=float).astype(np.float32))
    return hashlib.blake2b(a.tobytes(), digest_size=8).hexdigest()


def arr_digest_exact(a):
    """bitwise digest, for comparisons inside one process (snapshots of returned models)."""
    import numpy as np
    a = np.ascontiguousarray(np.asarray(a, dtype=float))
    return hashlib.blake2b(a.tobytes(), digest_size=8).hexdigest()


def jsonable(o):
    return json.loads(json.dumps(o, default=_default, allow_nan=True))


_loaded = {}


def setup_paths():
    """Put the repository under test first on sys.path and the stubs last."""
    src = os.path.join(REPO, 'src')
    for p in (REPO, src):
        while p in sys.path:
            sys.path.remove(p)
    sys.path.insert(0, REPO)
    sys.path.insert(0, src)
    stubs = os.path.join(VERIF_DIR, 'sim', 'stubs')
    if stubs not in sys.path:
        sys.path.append(stubs)


def load_mbi():
    if 'mbi' in _loaded:
        return _loaded['mbi']
    setup_paths()
    import warnings
    with warnings.catch_warnings():
        warnings.simplefilter('ignore')
        import mbi
    want = os.path.realpath(os.path.join(REPO, 'src', 'mbi'))
    got = os.path.realpath(os.path.dirname(mbi.__file__))
    if want != got:
        raise HarnessError('mbi imported from %s, expected %s' % (got, want))
    _loaded['mbi'] = mbi
    return mbi


def load_mechanism(name):
    """Load mechanisms/<name>.py from the repository under test by path."""
    key = 'mech:' + name
    if key in _loaded:
        return _loaded[key]
    load_mbi()
    path = os.path.join(REPO, 'mechanisms', name + '.py')
    modname = 'mechanisms.' + name.replace('+', '_')
    if name in ('mechanism', 'cdp2adp'):
        mod = importlib.import_module('mechanisms.' + name)
    else:
        import matplotlib
        matplotlib.use('Agg')
        spec = importlib.util.spec_from_file_location(modname, path)
        mod = importlib.util.module_from_spec(spec)
        sys.modules[modname] = mod
        spec.loader.exec_module(mod)
    got = os.path.realpath(mod.__file__)
    if got != os.path.realpath(path):
        raise HarnessError('%s imported from %s' % (name, got))
    _loaded[key] = mod
    return mod


def repo_state():
    """HEAD and a hash of the working-tree diff of the repository under test."""
    try:
        head = subprocess.run(['git', '-C', REPO, 'rev-parse', 'HEAD'], capture_output=True, text=True, timeout=20).stdout.strip()
        diff = subprocess.run(['git', '-C', REPO, 'diff', 'HEAD', '--', 'src', 'mechanisms'], capture_output=True, timeout=20).stdout
        return {'repo': REPO, 'head': head, 'diff': hashlib.blake2b(diff, digest_size=8).hexdigest() if diff else 'clean'}
    except Exception as e:  # not a git checkout (scratch copy)
        return {'repo': REPO, 'head': 'unknown', 'diff': str(type(e).__name__)}
