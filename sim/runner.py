"""Orchestrator, worker, minimiser, replay, evidence.

bin/check <ID> --tier quick|thorough          run a check
bin/check <ID> --replay FILE                  replay a violation file (fresh interpreter, recorded hash seed)
internal: --worker ... / --minimise ...
"""
import argparse
import faulthandler
import importlib
import json
import os
import shutil
import signal
import subprocess
import sys
import tempfile
import time
import traceback
import random
import re

from . import core
from .core import HarnessError, VERIF_DIR

ENGINES = {
    'C01': 'engines.a_bp', 'C12': 'engines.a_bp',
    'C02': 'engines.b_query',
    'C13': 'engines.c_esthist', 'C08': 'engines.c_esthist', 'C10': 'engines.c_esthist',
    'C05': 'engines.d_twin', 'C06': 'engines.d_twin',
    'C11': 'engines.e_sampler',
    'C16': 'engines.f_local', 'C18': 'engines.f_local',
    'C20': 'engines.g_prims',
}
WORKERS = int(os.environ.get('VERIF_WORKERS', '16'))
PY = sys.executable
CHECK = os.path.join(VERIF_DIR, 'bin', 'check')
MAX_KEEP_PER_SIG = 3


def engine_for(prop):
    if prop not in ENGINES:
        raise SystemExit('unknown or not-applicable property %s' % prop)
    return importlib.import_module(ENGINES[prop])


def child_env(hashseed):
    env = dict(os.environ)
    env.update(PYTHONHASHSEED=str(hashseed), OMP_NUM_THREADS='1', OPENBLAS_NUM_THREADS='1',
               MKL_NUM_THREADS='1', PYTHONDONTWRITEBYTECODE='1', MPLBACKEND='Agg')
    return env


class RunTimeout(BaseException):
    """raised by the per-run watchdog; a BaseException so that no `except Exception` of an engine (or of the code under test) can take it for a failure of the repository"""


def _alarm(signum, frame):
    raise RunTimeout()


def run_one(engine, case, prop, limit_s):
    """Run one case with a wall watchdog. Returns (result|None, harness_error|None)."""
    signal.signal(signal.SIGALRM, _alarm)
    signal.setitimer(signal.ITIMER_REAL, limit_s)
    try:
        return engine.run_case(case, prop), None
    except RunTimeout:
        return None, 'watchdog: run exceeded %ss' % limit_s
    except HarnessError as e:
        return None, 'HarnessError: %s' % e
    except Exception as e:
        return None, 'harness exception %s: %s\n%s' % (type(e).__name__, e, traceback.format_exc(limit=6))
    finally:
        signal.setitimer(signal.ITIMER_REAL, 0)


# ------------------------------------------------------------------------------------ worker
def worker_main(a):
    faulthandler.enable()
    engine = engine_for(a.prop)
    t0 = time.time()
    out = dict(evaluations=0, measures=[], faults={}, probes={}, steps=0, violations=[], harness=[],
               samples=[], digests={}, wall=0.0, hashseed=a.hashseed, nontrivial_runs=0, indices=[0, 0])
    per_sig = {}
    measures = set()
    i = a.start
    done = 0
    first = None
    limit = engine.RUN_LIMIT_S.get(a.prop, 60) if hasattr(engine, 'RUN_LIMIT_S') else 60
    if a.casefile:
        # regression seed: replay one recorded case (known / fixed finding) under its recorded hash seed
        blob = json.load(open(a.casefile))
        res, herr = run_one(engine, blob['case'], a.prop, limit)
        out['regression'] = os.path.basename(a.casefile)
        if herr is not None:
            out['harness'].append({'index': -1, 'error': 'regression seed %s: %s' % (a.casefile, herr)})
        else:
            for v in res.get('violations', []):
                per_sig[v['sig']] = per_sig.get(v['sig'], 0) + 1
                out['violations'].append({'index': -1, 'hashseed': a.hashseed, 'violation': core.jsonable(v), 'case': core.jsonable(blob['case'])})
        a.count = 0
    while done < a.count and time.time() < a.deadline:
        rs = core.run_seed(a.seed, a.prop, i)
        rnd = random.Random(rs)
        try:
            case = engine.gen_case(rnd, a.prop, a.tier)
        except Exception as e:
            out['harness'].append({'index': i, 'error': 'gen_case: %s\n%s' % (e, traceback.format_exc(limit=6))})
            i += a.stride
            done += 1
            continue
        case['_seed'] = rs
        res, herr = run_one(engine, case, a.prop, limit)
        out['evaluations'] += 1
        if first is None:
            first = i
        out['indices'] = [first, i]
        if herr is not None:
            if len(out['harness']) < 10:
                out['harness'].append({'index': i, 'error': herr, 'case': core.jsonable(case)})
            else:
                out['harness'].append({'index': i, 'error': herr[:200]})
        else:
            if res.get('nontrivial'):
                out['nontrivial_runs'] += 1
                measures.add(core.digest(res.get('measure')))
            for k, v in res.get('faults', {}).items():
                out['faults'][k] = out['faults'].get(k, 0) + v
            for k, v in res.get('probes', {}).items():
                out['probes'][k] = out['probes'].get(k, 0) + v
            out['steps'] += res.get('steps', 0)
            if a.digests:
                out['digests'][str(i)] = [core.digest({k: v for k, v in case.items()}), res.get('digest')]
            if len(out['samples']) < 2 and res.get('nontrivial'):
                out['samples'].append({'index': i, 'hashseed': a.hashseed, 'case': core.jsonable(engine.sample_view(case) if hasattr(engine, 'sample_view') else case),
                                       'measure': core.jsonable(res.get('measure'))})
            for v in res.get('violations', []):
                n = per_sig.get(v['sig'], 0)
                per_sig[v['sig']] = n + 1
                if n < MAX_KEEP_PER_SIG:
                    out['violations'].append({'index': i, 'hashseed': a.hashseed, 'violation': core.jsonable(v),
                                              'case': core.jsonable(case)})
        i += a.stride
        done += 1
    out['measures'] = sorted(measures)
    out['sig_counts'] = per_sig
    out['wall'] = time.time() - t0
    with open(a.out, 'w') as f:
        json.dump(out, f, allow_nan=True)
    return 0


# ------------------------------------------------------------------------------------ minimise / replay
def fails_with(engine, case, prop, sig, limit=60):
    res, herr = run_one(engine, case, prop, limit)
    if res is None:
        return None
    for v in res['violations']:
        if v['sig'] == sig:
            return v
    return None


def minimise(engine, case, prop, sig, deadline, max_evals=3000):
    evals = 0
    limit = engine.RUN_LIMIT_S.get(prop, 60) if hasattr(engine, 'RUN_LIMIT_S') else 60
    improved = True
    while improved and time.time() < deadline and evals < max_evals:
        improved = False
        for cand in engine.shrink(case, prop):
            evals += 1
            if time.time() > deadline or evals > max_evals:
                break
            try:
                v = fails_with(engine, cand, prop, sig, limit)
            except Exception:
                v = None
            if v is not None:
                case = cand
                improved = True
                break
    return case, evals


def minimise_main(a):
    engine = engine_for(a.prop)
    blob = json.load(open(a.minimise))
    case, sig = blob['case'], blob['sig']
    v0 = fails_with(engine, case, a.prop, sig)
    if v0 is None:
        blob.update(minimised=False, note='did not reproduce in the minimiser process')
        json.dump(blob, open(a.out, 'w'), indent=1, allow_nan=True)
        return 3
    small, evals = minimise(engine, case, a.prop, sig, time.time() + a.budget)
    v = fails_with(engine, small, a.prop, sig) or v0
    res, _ = run_one(engine, small, a.prop, 120)
    blob.update(case=core.jsonable(small), minimised=True, shrink_evals=evals, violation=core.jsonable(v),
                digest=res.get('digest') if res else None)
    json.dump(blob, open(a.out, 'w'), indent=1, allow_nan=True)
    return 0


def replay_main(a):
    blob = json.load(open(a.replay))
    hs = str(blob.get('hashseed', 0))
    if os.environ.get('PYTHONHASHSEED') != hs or os.environ.get('VERIF_REPLAY_CHILD') != '1':
        env = child_env(hs)
        env['VERIF_REPLAY_CHILD'] = '1'
        return subprocess.call([PY, CHECK] + sys.argv[1:], env=env)
    prop = blob['property']
    engine = engine_for(prop)
    print('replay: property=%s sig=%s hashseed=%s repo=%s' % (prop, blob['sig'], hs, json.dumps(core.repo_state())))
    res, herr = run_one(engine, blob['case'], prop, 600)
    if herr:
        print('HARNESS-ERROR during replay: %s' % herr)
        return 2
    hit = [v for v in res['violations'] if v['sig'] == blob['sig']]
    for v in res['violations']:
        print('  violation check=%s sig=%s: %s' % (v['check'], v['sig'], v['msg']))
    print('  digest=%s (recorded %s)' % (res.get('digest'), blob.get('digest')))
    if hit:
        print('VIOLATION property=%s replay=%s' % (prop, os.path.abspath(a.replay)))
        return 1
    print('replay: violation not reproduced on this tree')
    return 0


# ------------------------------------------------------------------------------------ known findings
def load_known():
    path = os.path.join(VERIF_DIR, 'known_findings.json')
    if not os.path.exists(path):
        return []
    return json.load(open(path)).get('findings', [])


def match_known(known, prop, sig):
    for k in known:
        if k.get('status') != 'open' or k['property'] != prop:
            continue
        if 'sig' in k and k['sig'] == sig:
            return k
        if 'sig_prefix' in k and sig.startswith(k['sig_prefix']):
            return k
        if 'sig_re' in k and re.search(k['sig_re'], sig):
            return k
    return None


# ------------------------------------------------------------------------------------ orchestrator
def orchestrate(a):
    engine = engine_for(a.prop)
    prop, tier = a.prop, a.tier
    seed = int(os.environ.get('VERIF_SEED', a.seed if a.seed is not None else 20261003))
    cfg = engine.TIERS[prop][tier]
    budget = float(os.environ.get('VERIF_BUDGET_S', a.budget if a.budget else cfg['budget_s']))
    runs = int(a.runs) if a.runs else cfg.get('runs')       # None => time-bounded
    nh = cfg.get('hashseeds', 4)
    hs_off = int(os.environ.get('VERIF_HS_OFFSET', '0'))       # determinism self-test only
    W = max(nh, (WORKERS // nh) * nh)
    t0 = time.time()
    work = tempfile.mkdtemp(prefix='verif-%s-' % prop, dir=os.environ.get('VERIF_WORK') or None)
    procs = []
    deadline = t0 + budget
    try:
        for w in range(W):
            count = 10 ** 9 if runs is None else len(range(w, runs, W))
            out = os.path.join(work, 'w%d.json' % w)
            cmd = [PY, CHECK, prop, '--worker', '--tier', tier, '--seed', str(seed), '--hashseed', str(w % nh + hs_off),
                   '--start', str(w), '--stride', str(W), '--count', str(count), '--deadline', repr(deadline), '--out', out]
            if a.digests:
                cmd += ['--digests', '1']
            log = open(os.path.join(work, 'w%d.log' % w), 'w')
            procs.append((subprocess.Popen(cmd, env=child_env(w % nh + hs_off), stdout=log, stderr=subprocess.STDOUT, cwd=VERIF_DIR), out, log))
        regress = [k for k in load_known() if k['property'] == prop and k.get('replay')]
        for n, k in enumerate(regress):
            path = os.path.join(VERIF_DIR, k['replay'])
            if not os.path.exists(path):
                continue
            hs = json.load(open(path)).get('hashseed', 0)
            out = os.path.join(work, 'r%d.json' % n)
            cmd = [PY, CHECK, prop, '--worker', '--tier', tier, '--seed', str(seed), '--hashseed', str(hs), '--casefile', path,
                   '--deadline', repr(deadline), '--out', out]
            log = open(os.path.join(work, 'r%d.log' % n), 'w')
            procs.append((subprocess.Popen(cmd, env=child_env(hs), stdout=log, stderr=subprocess.STDOUT, cwd=VERIF_DIR), out, log))
        hard = deadline + cfg.get('grace_s', 120)
        harness_errors = []
        for p, out, log in procs:
            try:
                p.wait(timeout=max(1, hard - time.time()))
            except subprocess.TimeoutExpired:
                p.kill()
                p.wait()
                harness_errors.append('worker killed by wall watchdog: %s' % out)
            log.close()
        results = []
        for w, (p, out, log) in enumerate(procs):
            if os.path.exists(out):
                results.append(json.load(open(out)))
            else:
                tail = open(out[:-5] + '.log').read()[-1500:]
                harness_errors.append('worker %d produced no result (exit %s): %s' % (w, p.returncode, tail))
        return finish(a, engine, prop, tier, seed, results, harness_errors, t0, nh, W, runs, work)
    finally:
        shutil.rmtree(work, ignore_errors=True)


def finish(a, engine, prop, tier, seed, results, harness_errors, t0, nh, W, runs, work):
    known = load_known()
    agg = dict(evaluations=0, faults={}, probes={}, steps=0, nontrivial_runs=0)
    measures, samples, by_sig, sig_counts = set(), [], {}, {}
    incomplete = 0
    regression = [r['regression'] for r in results if r.get('regression')]
    for r in results:
        agg['evaluations'] += r['evaluations']
        agg['steps'] += r['steps']
        agg['nontrivial_runs'] += r['nontrivial_runs']
        for k in ('faults', 'probes'):
            for kk, v in r[k].items():
                agg[k][kk] = agg[k].get(kk, 0) + v
        measures.update(r['measures'])
        samples.extend(r['samples'][:1])
        for h in r['harness']:
            harness_errors.append('run %s: %s' % (h.get('index'), h['error']))
        for v in r['violations']:
            by_sig.setdefault(v['violation']['sig'], []).append(v)
        for s, n in r.get('sig_counts', {}).items():
            sig_counts[s] = sig_counts.get(s, 0) + n
    if a.digests:
        dig = {}
        for r in results:
            dig.update(r['digests'])
        with open(a.digests, 'w') as f:
            json.dump(dig, f, sort_keys=True)
    # violations: known findings vs new
    new_viol, known_hit = [], {}
    for sig in sorted(by_sig):
        k = match_known(known, prop, sig)
        if k is not None:
            known_hit.setdefault(k['id'], [k, 0])
            known_hit[k['id']][1] += sig_counts.get(sig, len(by_sig[sig]))
        else:
            new_viol.append(sig)
    rdir = os.path.join(VERIF_DIR, 'replays', prop)
    lines = []
    min_budget = engine.TIERS[prop][tier].get('minimise_s', 60)
    for n, sig in enumerate(new_viol):
        cands = sorted(by_sig[sig], key=lambda v: len(json.dumps(v['case'])))
        v = cands[0]
        os.makedirs(rdir, exist_ok=True)
        name = '%s-%s.json' % (v['violation']['check'].replace('/', '_'), core.digest(sig))
        path = os.path.join(rdir, name)
        blob = dict(property=prop, sig=sig, check=v['violation']['check'], message=v['violation']['msg'],
                    violation=v['violation'], case=v['case'], hashseed=v['hashseed'], verif_seed=seed, run_index=v['index'],
                    repo_state=core.repo_state(), minimised=False, occurrences=sig_counts.get(sig),
                    replay_cmd='bin/check %s --replay %s' % (prop, path))
        with open(path, 'w') as f:
            json.dump(blob, f, indent=1, allow_nan=True)
        if n < 6 and not a.no_minimise:
            try:
                subprocess.run([PY, CHECK, prop, '--minimise', path, '--out', path, '--budget', str(min_budget)],
                               env=child_env(v['hashseed']), timeout=min_budget + 180, cwd=VERIF_DIR,
                               stdout=subprocess.DEVNULL, stderr=subprocess.DEVNULL)
            except subprocess.TimeoutExpired:
                pass
        try:
            msg = json.load(open(path)).get('violation', {}).get('msg', v['violation']['msg'])
        except Exception:
            msg = v['violation']['msg']
        lines.append('VIOLATION property=%s replay=%s' % (prop, path))
        print('  [%s] x%d %s' % (sig, sig_counts.get(sig, 0), msg[:300]))
    for kid, (k, n) in sorted(known_hit.items()):
        print('KNOWN-FINDING: property=%s %s (%s; matched %d runs)' % (prop, k['what'], kid, n))
    wall = time.time() - t0
    comp = engine.COMPONENTS
    ev = {
        'property_id': prop, 'tier': tier, 'seed': seed, 'level': 'exploration',
        'coverage': {
            'evaluations': agg['evaluations'],
            'distinct_nontrivial': len(measures),
            'rule': engine.RULES[prop],
            'samples': samples[:3],
            'nontrivial_runs': agg['nontrivial_runs'],
            'runs_per_hour': int(agg['evaluations'] / max(wall, 1e-9) * 3600),
            'seeds': {'verif_seed': seed, 'run_indices': '0..%d (run_seed = blake2b(seed|property|index))' % max(agg['evaluations'] - 1, 0)},
            'hashseeds': list(range(nh)), 'workers': W,
            'sim_steps': agg['steps'],
            'sim_steps_meaning': engine.STEP_MEANING,
            'simulated_time': 'the repository has no clock, timer or deadline; simulated time is reported as logical steps (sim_steps)',
            'fault_counts': agg['faults'],
            'probes': agg['probes'],
            'real_components': comp['real'], 'stub_components': comp['stub'],
            'known_findings_matched': {kid: n for kid, (k, n) in known_hit.items()},
            'regression_seeds_replayed': sorted(regression),
            'violation_signatures': new_viol,
            'harness_errors': len(harness_errors),
            'repo_state': core.repo_state(),
        },
        'assumptions': engine.ASSUMPTIONS.get(prop, []),
        'wall_s': round(wall, 2),
        'violations': len(new_viol),
    }
    os.makedirs(os.path.join(VERIF_DIR, 'evidence'), exist_ok=True)
    if not a.no_evidence:
        with open(os.path.join(VERIF_DIR, 'evidence', '%s.json' % prop), 'w') as f:
            json.dump(ev, f, indent=1, allow_nan=False, default=str)
    print('%s %s: %d runs (%d non-trivial, %d distinct by measure) in %.1fs; faults=%s' % (
        prop, tier, agg['evaluations'], agg['nontrivial_runs'], len(measures), wall, json.dumps(agg['faults'], sort_keys=True)))
    print('probes=%s' % json.dumps(agg['probes'], sort_keys=True))
    for ln in lines:
        print(ln)
    if harness_errors:
        for h in harness_errors[:5]:
            print('HARNESS-ERROR: %s' % h[:1500])
        print('HARNESS-ERROR count=%d' % len(harness_errors))
    if lines:
        return 1
    if harness_errors or agg['evaluations'] == 0:
        return 2
    return 0


def main(argv=None):
    ap = argparse.ArgumentParser()
    ap.add_argument('prop')
    ap.add_argument('--tier', default=os.environ.get('VERIF_TIER', 'quick'), choices=['quick', 'thorough'])
    ap.add_argument('--seed', type=int, default=None)
    ap.add_argument('--budget', type=float, default=None)
    ap.add_argument('--runs', type=int, default=None)
    ap.add_argument('--replay')
    ap.add_argument('--digests', help='write per-run digests to this file (determinism self-test)')
    ap.add_argument('--no-evidence', action='store_true')
    ap.add_argument('--no-minimise', action='store_true')
    ap.add_argument('--worker', action='store_true')
    ap.add_argument('--minimise')
    ap.add_argument('--hashseed', type=int, default=0)
    ap.add_argument('--start', type=int, default=0)
    ap.add_argument('--stride', type=int, default=1)
    ap.add_argument('--count', type=int, default=1)
    ap.add_argument('--deadline', type=float, default=0)
    ap.add_argument('--out')
    ap.add_argument('--casefile')
    ap.add_argument('--only')
    a = ap.parse_args(argv)
    if a.prop.startswith('selftest'):
        from . import selftest
        return selftest.main(a)
    if a.replay:
        return replay_main(a)
    if a.worker:
        return worker_main(a)
    if a.minimise:
        return minimise_main(a)
    return orchestrate(a)
