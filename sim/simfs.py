"""SimFS: in-memory file system installed as `mbi.graphical_model.open` (a module global that
shadows the builtin; the module defines none).  Faults: write error at byte offset k (signalled),
lost tail after k bytes (unsignalled: GraphicalModel.save never closes its file, and CPython
swallows a flush error at deallocation), read error."""
import contextlib
import io


class SimFile:
    def __init__(self, fs, path, mode):
        self.fs, self.path, self.mode = fs, path, mode
        self.closed = False
        if 'w' in mode:
            self.buf = bytearray()
            fs.files[path] = self.buf
            fs.counts['open-w'] += 1
        else:
            if path not in fs.files:
                raise FileNotFoundError(2, 'No such file or directory', path)
            if fs.fault and fs.fault[0] == 'read-error':
                fs.fired['fs-read-error'] = fs.fired.get('fs-read-error', 0) + 1
                self.rd = None
            else:
                self.rd = io.BytesIO(bytes(fs.files[path]))
            fs.counts['open-r'] += 1

    # writing
    def write(self, data):
        data = bytes(data)
        f = self.fs.fault
        if f and f[0] == 'write-error' and len(self.buf) + len(data) > f[1]:
            keep = max(0, f[1] - len(self.buf))
            self.buf += data[:keep]
            self.fs.fired['fs-write-error'] = self.fs.fired.get('fs-write-error', 0) + 1
            raise OSError(28, 'No space left on device (injected)')
        if f and f[0] == 'lost-tail':
            keep = max(0, f[1] - len(self.buf))
            if keep < len(data):
                self.fs.fired['fs-lost-tail'] = self.fs.fired.get('fs-lost-tail', 0) + 1
            self.buf += data[:keep]
            return len(data)
        self.buf += data
        return len(data)

    # reading
    def _r(self):
        if self.rd is None:
            raise OSError(5, 'Input/output error (injected)')
        return self.rd

    def read(self, n=-1):
        return self._r().read(n)

    def readline(self):
        return self._r().readline()

    def readinto(self, b):
        return self._r().readinto(b)

    def peek(self, n=0):
        r = self._r()
        pos = r.tell()
        d = r.read(n if n > 0 else 1)
        r.seek(pos)
        return d

    def flush(self):
        pass

    def close(self):
        self.closed = True

    def __enter__(self):
        return self

    def __exit__(self, *a):
        self.close()


class SimFS:
    def __init__(self):
        self.files = {}
        self.fault = None
        self.fired = {}
        self.counts = {'open-w': 0, 'open-r': 0}

    def open(self, path, mode='r', *a, **k):
        if 'b' not in mode:
            raise OSError('SimFS only models binary files (mode %r)' % mode)
        return SimFile(self, str(path), mode)

    @contextlib.contextmanager
    def installed(self, module):
        had = 'open' in module.__dict__
        old = module.__dict__.get('open')
        module.open = self.open
        try:
            yield self
        finally:
            if had:
                module.open = old
            else:
                del module.open
