"""Self-tests of the machinery (not property checks).

bin/check selftest-determinism [--runs N]   every claimed property: same (seed, hash seed) => same per-run digests in
                                             separate interpreters, at 16 and 4 workers; the generated cases do not depend
                                             on the interpreter hash seed (harness adds no hash dependence of its own)
bin/check selftest-sensitivity [--only ID]  every seeded change under /verif/seeded and /verif/selftest/mutants is applied to a
                                             scratch worktree of /repo and the quick check of its property must exit 1;
                                             plus negative controls of the oracles
"""
import glob
import json
import os
import subprocess
import sys
import tempfile
import time

from .core import VERIF_DIR

CHECK = os.path.join(VERIF_DIR, 'bin', 'check')
PROPS = ['C01', 'C12', 'C02', 'C11', 'C13', 'C08', 'C10', 'C16', 'C18', 'C20', 'C05', 'C06']
DET_RUNS = {'C01': 320, 'C12': 320, 'C02': 320, 'C11': 320, 'C13': 192, 'C08': 256, 'C10': 256, 'C16': 256, 'C18': 96, 'C20': 640, 'C05': 96, 'C06': 96}


def run_digests(prop, runs, workers, hs_offset, out):
    env = dict(os.environ, VERIF_WORKERS=str(workers), VERIF_HS_OFFSET=str(hs_offset))
    cmd = [sys.executable, CHECK, prop, '--tier', 'quick', '--runs', str(runs), '--digests', out, '--no-evidence', '--no-minimise']
    p = subprocess.run(cmd, env=env, capture_output=True, text=True, cwd=VERIF_DIR)
    return p.returncode, p.stdout[-400:]


def determinism(a):
    props = [a.only] if getattr(a, 'only', None) else PROPS
    bad = 0
    tmp = tempfile.mkdtemp(prefix='verif-det-')
    t0 = time.time()
    total = 0
    for prop in props:
        runs = a.runs or DET_RUNS[prop]
        files = {}
        for tag, (w, off) in {'a16': (16, 0), 'b16': (16, 0), 'c4': (4, 0), 'h7': (16, 7)}.items():
            f = os.path.join(tmp, '%s-%s.json' % (prop, tag))
            rc, tail = run_digests(prop, runs, w, off, f)
            if rc not in (0, 1) or not os.path.exists(f):
                print('selftest-determinism %s/%s: check exited %s: %s' % (prop, tag, rc, tail))
                bad += 1
                continue
            files[tag] = json.load(open(f))
        if len(files) < 4:
            continue
        A, B, C, H = files['a16'], files['b16'], files['c4'], files['h7']
        total += len(A)
        d_ab = [i for i in A if A[i] != B.get(i)]
        d_ac = [i for i in A if A[i] != C.get(i)]
        d_case = [i for i in A if A[i][0] != H.get(i, [None])[0]]
        d_res_h = sum(1 for i in A if A[i][1] != H.get(i, [None, None])[1])
        ok = not d_ab and not d_ac and not d_case and len(A) == len(B) == len(C) == len(H) == runs
        print('selftest-determinism %s: %d runs; repeat@16 workers: %d differ; 4 vs 16 workers: %d differ; case generation under shifted hash seeds: %d differ '
              '(result digests that legitimately depend on the hash seed: %d) -> %s' % (prop, len(A), len(d_ab), len(d_ac), len(d_case), d_res_h, 'ok' if ok else 'FAIL'))
        if not ok:
            bad += 1
            print('   first differing run indices:', (d_ab or d_ac or d_case)[:5])
    print('selftest-determinism: %d runs compared in %.0fs, %d failing properties' % (total, time.time() - t0, bad))
    subprocess.run(['rm', '-rf', tmp])
    return 1 if bad else 0


def sensitivity(a):
    seeds = sorted(glob.glob(os.path.join(VERIF_DIR, 'seeded', '*', 'meta.json'))) + sorted(glob.glob(os.path.join(VERIF_DIR, 'selftest', 'mutants', '*', 'meta.json')))
    bad = 0
    rows = []
    for mf in seeds:
        meta = json.load(open(mf))
        sid = meta['id']
        if getattr(a, 'only', None) and a.only not in (sid, meta['breaks_property']):
            continue
        patch = os.path.join(os.path.dirname(mf), 'patch.diff')
        wt = tempfile.mkdtemp(prefix='verif-sens-', dir='/tmp')
        os.rmdir(wt)
        try:
            subprocess.run(['git', '-C', '/repo', 'worktree', 'add', '-q', '--detach', wt, 'HEAD'], check=True, capture_output=True)
            ap = subprocess.run('git apply %s || git apply --3way %s' % (patch, patch), shell=True, cwd=wt, capture_output=True, text=True)
            if ap.returncode != 0:
                print('selftest-sensitivity %s: patch does not apply: %s' % (sid, ap.stderr[-200:]))
                bad += 1
                continue
            prop = meta.get('check_with', meta['breaks_property'])
            env = dict(os.environ, VERIF_REPO=wt)
            t0 = time.time()
            p = subprocess.run([sys.executable, CHECK, prop, '--tier', 'quick', '--no-evidence', '--no-minimise'], env=env, capture_output=True, text=True, cwd=VERIF_DIR)
            sigs = [ln.strip() for ln in p.stdout.splitlines() if ln.startswith('  [')]
            ok = p.returncode == 1
            import re
            hits = sum(int(m.group(1)) for ln in sigs for m in [re.search(r'\] x(\d+) ', ln)] if m)
            rows.append((sid, prop, ok, time.time() - t0))
            exp = meta.get('expected_miss', False)
            print('selftest-sensitivity %s (%s): exit %d in %.0fs -> %s  %s' % (sid, prop, p.returncode, time.time() - t0,
                  ('detected in %d runs' % hits) if ok else ('missed (documented as expected: %s)' % meta.get('why_missed', '')[:80] if exp else 'MISSED'), sigs[0][:160] if sigs else ''))
            if not ok and not exp:
                bad += 1
        finally:
            subprocess.run(['git', '-C', '/repo', 'worktree', 'remove', '--force', wt], capture_output=True)
            subprocess.run(['git', '-C', '/repo', 'worktree', 'prune'], capture_output=True)
    bad += negative_controls()
    print('selftest-sensitivity: %d seeded changes, %d problems' % (len(rows), bad))
    return 1 if bad else 0


def negative_controls():
    """oracles must reject what is wrong: an invalid message schedule, a broken junction tree, an overspent ledger."""
    import random
    sys.path.insert(0, VERIF_DIR)
    from engines import a_bp
    from sim import refmodel
    bad = 0
    # 1. a schedule that violates one dependency must produce a mismatch on some branching tree
    hits = 0
    for i in range(300):
        rnd = random.Random(1000 + i)
        case = a_bp.gen_case(rnd, 'C01', 'quick')
        case['elims'] = case['elims'][:1]
        res = a_bp.run_case(case, 'C01', break_dep=i)
        if any(v['check'] in ('bp-marginal', 'bp-logZ', 'bp-finite') for v in res['violations']):
            hits += 1
    print('negative control (invalid message schedule flagged): %d of 300 cases' % hits)
    if hits < 20:
        bad += 1
    # 2. junction-tree axioms reject a tree without running intersection and a schedule with a missing / misplaced message
    nodes = [('a', 'b'), ('b', 'c'), ('a', 'c')]
    edges = [(nodes[0], nodes[1]), (nodes[1], nodes[2])]
    if not any(c == 'jt-running-intersection' for c, _ in refmodel.jt_axioms(['a', 'b', 'c'], [], nodes, edges)):
        print('negative control FAILED: running intersection not checked')
        bad += 1
    order = [(nodes[1], nodes[2]), (nodes[0], nodes[1]), (nodes[2], nodes[1]), (nodes[1], nodes[0])]
    if not refmodel.schedule_axioms(edges, order):
        print('negative control FAILED: dependency order not checked')
        bad += 1
    # 3. budget reference is not looser than the shipped conversion
    from sim import core
    m = core.load_mechanism('cdp2adp')
    for eps, delta in ((1.0, 1e-6), (0.05, 1e-12), (10.0, 1e-3)):
        r, rr = m.cdp_rho(eps, delta), refmodel.ref_cdp_rho(eps, delta)
        if not (rr >= r * (1 - 1e-12) and rr <= r * 1.0001):
            print('negative control FAILED: rho_ref(%g,%g)=%r vs cdp_rho %r' % (eps, delta, rr, r))
            bad += 1
    print('negative controls: %d failed' % bad)
    return bad


def main(a):
    if a.prop == 'selftest-determinism':
        return determinism(a)
    if a.prop == 'selftest-sensitivity':
        return sensitivity(a)
    raise SystemExit('unknown self-test %s' % a.prop)
