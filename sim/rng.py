"""SimRNG: the random-outcome seam.

Replaces the module-level np.random sampling functions (and is passed where the code
has a prng= seam).  Every outcome is derived from one random.Random stream, or taken
from a recorded script (replay mode, used for twin runs on neighbouring datasets).
Every call is recorded as an event.
"""
import contextlib
import math
import types

import numpy as np

from .core import HarnessError

_ORIG = {}
_PATCHED = ('normal', 'laplace', 'choice', 'shuffle', 'permutation', 'rand', 'random',
            'randint', 'uniform', 'random_sample', 'randn', 'multinomial')
_PCG64 = np.random.PCG64
_Generator = np.random.Generator
P_POSSIBLE = 1e-12      # adversarial single selections only pick outcomes at least this likely
P_IMPOSSIBLE = 1e-30    # outcomes below this are never produced by any policy


class TraceDivergence(Exception):
    """Replay mode: the run under replay asked for something the recorded run did not."""
    def __init__(self, index, want, got):
        Exception.__init__(self, 'event %d: recorded %s, requested %s' % (index, want, got))
        self.index, self.want, self.got = index, want, got


_TRUNCATING = ('clip', 'minimum', 'maximum', 'fmin', 'fmax', 'absolute', 'fabs')      # ufunc names (np.clip itself is a wrapper)


class NoiseArray(np.ndarray):
    """Noise returned by normal()/laplace(); intercepts the addition that releases a statistic."""

    def __new__(cls, values, sim, ev, mult=1.0):
        obj = np.asarray(values, dtype=float).view(cls)
        obj._sim = (sim, ev, mult)
        return obj

    def __array_finalize__(self, obj):
        self._sim = getattr(obj, '_sim', None)

    def __array_ufunc__(self, ufunc, method, *inputs, out=None, **kwargs):
        plain = [np.asarray(x) if isinstance(x, NoiseArray) else x for x in inputs]
        noisy = [i for i, x in enumerate(inputs) if isinstance(x, NoiseArray)]
        sim, ev, mult = inputs[noisy[0]]._sim if inputs[noisy[0]]._sim else (None, None, 1.0)
        if sim is not None and method == '__call__' and out is None and len(inputs) == 2 and len(noisy) == 1:
            i = noisy[0]
            other = plain[1 - i]
            if ufunc in (np.add, np.subtract) and not ev.get('released') and np.size(plain[i]) == ev['n']:
                operand = np.asarray(other, dtype=float)
                sign = 1.0
                if ufunc is np.subtract:
                    if i == 0:
                        operand = -operand      # noise - x
                    else:
                        sign = -1.0             # x - noise
                return sim._release(ev, operand, plain[i] * sign, mult)
            if ufunc in (np.multiply, np.true_divide) and np.ndim(other) == 0 and (ufunc is np.multiply or i == 0):
                c = float(other)
                val = plain[i] * c if ufunc is np.multiply else plain[i] / c
                m = mult * abs(c) if ufunc is np.multiply else mult / abs(c)
                return NoiseArray(val, sim, ev, m)
        if sim is not None and method == '__call__' and out is None and ufunc.__name__ in _TRUNCATING and not ev.get('released') and isinstance(inputs[0], NoiseArray):
            # the draw is truncated / folded before it is added to the statistic: still the noise of this event (the release is
            # intercepted as usual), but no longer a Gaussian / Laplace variable - recorded for the privacy ledger
            val = getattr(ufunc, method)(*plain, **kwargs)
            if np.shape(val) == np.shape(plain[0]):
                ev.setdefault('truncated', []).append(ufunc.__name__)
                return NoiseArray(val, sim, ev, mult)
            return val
        if sim is not None:
            sim.untracked.append('%s.%s on noise of event %d' % (ufunc.__name__, method, ev['i']))
        if out is not None:
            kwargs['out'] = tuple(np.asarray(o) if isinstance(o, NoiseArray) else o for o in out)
        return getattr(ufunc, method)(*plain, **kwargs)


class SimRNG:
    """policy keys (all optional):
         noise:      faithful | zero | outlier | blackout | allsup      (default per event: see rates)
         rates:      {'zero':r,'outlier':r,'blackout':r,'allsup':r,
                      'argmin':r,'argmax':r,'first':r,'last':r,'repeat':r,
                      'nr_lowest':r,'nr_highest':r,'nr_first':r, 'many_min':r, 'many_const':r}
         shuffle:    random | identity | reverse
    """

    def __init__(self, rnd, policy=None, script=None):
        self.rnd = rnd
        self.policy = policy or {}
        self.rates = dict(self.policy.get('rates', {}))
        self.script = script        # list of recorded events => replay mode
        self.events = []
        self.untracked = []
        self.fired = {}
        self._prev_choice = None
        self._trip = []

    # ------------------------------------------------------------------ helpers
    def _gen(self):
        return _Generator(_PCG64(self.rnd.getrandbits(64)))

    def _fire(self, kind):
        self.fired[kind] = self.fired.get(kind, 0) + 1

    def _pick(self, kinds):
        """choose an outcome policy for this event from the per-run rates (one uniform draw)."""
        u = self.rnd.random()
        acc = 0.0
        for k in kinds:
            acc += self.rates.get(k, 0.0)
            if u < acc:
                return k
        return 'faithful'

    def _event(self, kind, **kw):
        ev = dict(i=len(self.events), kind=kind, **kw)
        self.events.append(ev)
        return ev

    def _scripted(self, kind, shape_key):
        i = len(self.events)
        if i >= len(self.script):
            raise TraceDivergence(i, 'end of trace', (kind,) + tuple(shape_key))
        rec = self.script[i]
        want = (rec['kind'],) + tuple(rec['shape_key'])
        got = (kind,) + tuple(shape_key)
        if want != got:
            raise TraceDivergence(i, want, got)
        return rec

    @staticmethod
    def _size(size):
        if size is None:
            return None, 1
        if isinstance(size, (int, np.integer)):
            return (int(size),), int(size)
        shape = tuple(int(s) for s in size)
        n = 1
        for s in shape:
            n *= s
        return shape, n

    # ------------------------------------------------------------------ noise
    def _noise(self, kind, loc, scale, size):
        shape, n = self._size(size)
        loc_arr = np.asarray(loc, dtype=float)
        scale_arr = np.asarray(scale, dtype=float)
        if shape is None:
            shape = np.broadcast(loc_arr, scale_arr).shape
            n = int(np.prod(shape)) if shape else 1
        if np.any(scale_arr < 0):
            raise ValueError('scale < 0')
        skey = (n, float(scale_arr) if scale_arr.ndim == 0 else 'arr')
        if self.script is not None:
            rec = self._scripted(kind, skey)
            pol, z = rec['policy'], np.array(rec['z'], dtype=float)
        else:
            rec = None
            pol = self._pick(('zero', 'outlier', 'blackout', 'allsup'))
            g = self._gen()
            u1 = 1.0 - g.random(n)
            u2 = g.random(n)
            if kind == 'normal':
                z = np.sqrt(-2.0 * np.log(u1)) * np.cos(2.0 * math.pi * u2)
            else:
                v = u2 - 0.5
                z = -np.sign(v) * np.log(1.0 - 2.0 * np.abs(v))
            if pol == 'zero':
                z = np.zeros(n)
            elif pol == 'outlier':
                k = (5.0, 20.0, 100.0)[self.rnd.randrange(3)]
                j = self.rnd.randrange(n) if n else 0
                if n:
                    z[j] = k * (1.0 if self.rnd.random() < 0.5 else -1.0)
            if pol != 'faithful':
                self._fire('noise-' + pol)
        ev = self._event(kind, n=n, scale=scale_arr.tolist(), shape_key=skey, policy=pol, z=z,
                         released=None, operand=None, value=None, rec=rec)
        noise = (z.reshape(shape) if shape else z.reshape(())) * scale_arr
        if loc_arr.ndim > 0 or float(loc_arr) != 0.0:
            # loc carries the statistic: normal(loc=x, scale=s) is a release of x
            return self._release(ev, np.broadcast_to(loc_arr, noise.shape).astype(float), noise, 1.0)
        if noise.ndim == 0:
            noise = noise.reshape(1)
            ev['scalar'] = True
        return NoiseArray(noise, self, ev, 1.0)

    def _release(self, ev, operand, noise, mult):
        operand = np.asarray(operand, dtype=float)
        full = np.broadcast(operand, noise).shape
        noise = np.broadcast_to(noise, full)
        operand_b = np.broadcast_to(operand, full)
        pol = ev['policy']
        scale = np.asarray(ev['scale'], dtype=float) * mult
        ev['eff_scale'] = scale.tolist()
        if ev['rec'] is not None:
            value = np.array(ev['rec']['value'], dtype=float)
            if value.shape != full:
                raise TraceDivergence(ev['i'], ('release', value.shape), ('release', full))
        elif pol == 'blackout':
            value = -np.abs(noise) - 0.0 * operand_b
        elif pol == 'allsup':
            value = np.maximum(operand_b + noise, 3.5 * np.broadcast_to(scale, full) + np.abs(noise))
        else:
            value = operand_b + noise
        ev['released'] = True
        ev['operand'] = np.array(operand_b, dtype=float)
        ev['value'] = np.array(value, dtype=float)
        return np.array(value, dtype=float)

    def normal(self, loc=0.0, scale=1.0, size=None):
        return self._noise('normal', loc, scale, size)

    def laplace(self, loc=0.0, scale=1.0, size=None):
        return self._noise('laplace', loc, scale, size)

    def randn(self, *shape):
        return self._noise('normal', 0.0, 1.0, shape if shape else None)

    # ------------------------------------------------------------------ selections
    @staticmethod
    def _check_p(p, n):
        p = np.array(p, dtype=float)
        if p.ndim != 1 or p.size != n:
            raise ValueError("'a' and 'p' must have same size")
        if np.any(np.isnan(p)):
            raise ValueError('probabilities contain NaN')
        if np.any(p < 0):
            raise ValueError('probabilities are not non-negative')
        if abs(p.sum() - 1.0) > math.sqrt(np.finfo(float).eps):
            raise ValueError('probabilities do not sum to 1')
        return p

    def choice(self, a, size=None, replace=True, p=None):
        if isinstance(a, (int, np.integer)):
            pop, n = None, int(a)
            if n <= 0 and size != 0 and (size is None or np.prod(size) > 0):
                raise ValueError('a must be greater than 0 unless no samples are taken')
        else:
            pop = np.array(a)
            n = pop.shape[0]
            if n == 0 and (size is None or np.prod(size) > 0):
                raise ValueError("'a' cannot be empty unless no samples are taken")
        shape, m = self._size(size)
        pp = self._check_p(p, n) if p is not None else None
        skey = (n, -1 if shape is None else m, bool(replace))
        if self.script is not None:
            rec = self._scripted('choice', skey)
            idx, pol = np.array(rec['idx'], dtype=int), rec['policy']
        else:
            rec = None
            q = pp if pp is not None else np.full(n, 1.0 / max(n, 1))
            if shape is None:
                idx, pol = self._choose_one(q)
            elif replace:
                idx, pol = self._choose_many(q, m)
            else:
                idx, pol = self._choose_nr(q, m)
            if pol != 'faithful':
                self._fire('choice-' + pol)
        self._event('choice', n=n, m=m, replace=bool(replace), shape_key=skey, policy=pol,
                    p=None if pp is None else pp, idx=np.array(idx, dtype=int), single=shape is None)
        if shape is None:
            j = int(np.asarray(idx).reshape(-1)[0])
            self._prev_choice = j
            return np.int64(j) if pop is None else pop[j]
        idx = np.asarray(idx, dtype=np.int64).reshape(shape)
        return idx if pop is None else pop[idx]

    def _choose_one(self, q):
        pol = self._pick(('argmin', 'argmax', 'first', 'last', 'repeat'))
        ok = np.nonzero(q >= P_POSSIBLE)[0]
        if pol != 'faithful' and ok.size:
            if pol == 'argmin':
                return [int(ok[np.argmin(q[ok])])], pol
            if pol == 'argmax':
                return [int(ok[np.argmax(q[ok])])], pol
            if pol == 'first':
                return [int(ok[0])], pol
            if pol == 'last':
                return [int(ok[-1])], pol
            if pol == 'repeat' and self._prev_choice is not None and self._prev_choice in ok:
                return [int(self._prev_choice)], pol
        u = self.rnd.random()
        c = np.cumsum(q)
        j = int(np.searchsorted(c, u * c[-1], side='right'))
        j = min(j, q.size - 1)
        while q[j] < P_IMPOSSIBLE and j > 0:      # never realise an impossible outcome
            j -= 1
        if q[j] < P_IMPOSSIBLE:
            j = int(np.argmax(q))
        return [j], 'faithful'

    def _choose_many(self, q, m):
        pol = self._pick(('many_min', 'many_const'))
        pos = np.nonzero(q >= P_IMPOSSIBLE)[0]
        if pol == 'many_min' and pos.size:
            # every record falls in the least likely possible outcome
            return np.full(m, int(pos[np.argmin(q[pos])])), pol
        if pol == 'many_const' and pos.size:
            return np.full(m, int(pos[self.rnd.randrange(pos.size)])), pol
        u = self._gen().random(m)
        c = np.cumsum(q)
        idx = np.searchsorted(c, u * c[-1], side='right')
        idx = np.minimum(idx, q.size - 1)
        bad = q[idx] < P_IMPOSSIBLE
        if bad.any():
            idx[bad] = int(np.argmax(q))
        return idx, 'faithful'

    def _choose_nr(self, q, m):
        if m > q.size:
            raise ValueError("Cannot take a larger sample than population when 'replace=False'")
        nz = np.nonzero(q > 0)[0]
        if nz.size < m:
            raise ValueError('Fewer non-zero entries in p than size')
        pol = self._pick(('nr_lowest', 'nr_highest', 'nr_first'))
        # adversarial subsets are built from outcomes no PRNG calls impossible (q >= P_IMPOSSIBLE, as for every other policy); entries below
        # that are used only when fewer than m possible ones exist (the draw is then forced on the real sampler too)
        tiny = q[nz] < P_IMPOSSIBLE
        if pol == 'nr_lowest':
            return nz[np.lexsort((q[nz], tiny))[:m]], pol
        if pol == 'nr_highest':
            return nz[np.argsort(-q[nz], kind='stable')[:m]], pol
        if pol == 'nr_first':
            return nz[np.lexsort((np.arange(nz.size), tiny))[:m]], pol
        # faithful: Efraimidis-Spirakis keys give successive weighted sampling without replacement
        u = self._gen().random(q.size)
        with np.errstate(divide='ignore', invalid='ignore'):
            keys = np.where(q > 0, np.log(1.0 - u) / q, -np.inf)
        return np.argsort(-keys, kind='stable')[:m], 'faithful'

    def multinomial(self, n, pvals, size=None):
        if size is not None:
            raise HarnessError('multinomial with size is not modelled')
        pv = np.asarray(pvals, dtype=float)
        n = int(n)
        if self.script is not None:
            rec = self._scripted('multinomial', (pv.size, n))
            counts = np.array(rec['counts'], dtype=int)
        else:
            q = np.clip(pv, 0, None)
            c = np.cumsum(q)
            u = self._gen().random(n)
            idx = np.minimum(np.searchsorted(c, u * c[-1], side='right'), pv.size - 1)
            counts = np.bincount(idx, minlength=pv.size)
        self._event('multinomial', n=pv.size, m=n, shape_key=(pv.size, n), p=pv, counts=counts, policy='x')
        return counts

    def shuffle(self, x):
        n = len(x)
        if self.script is not None:
            rec = self._scripted('shuffle', (n,))
            perm = np.array(rec['perm'], dtype=int)
        else:
            mode = self.policy.get('shuffle', 'random')
            if mode == 'identity':
                perm = np.arange(n)
            elif mode == 'reverse':
                perm = np.arange(n)[::-1]
            else:
                perm = np.argsort(self._gen().random(n), kind='stable')
            if mode != 'random':
                self._fire('shuffle-' + mode)
        self._event('shuffle', n=n, shape_key=(n,), perm=perm, policy='x')
        x[:] = np.array(x)[perm] if isinstance(x, np.ndarray) else [x[i] for i in perm]

    def permutation(self, x):
        arr = np.arange(x) if isinstance(x, (int, np.integer)) else np.array(x)
        self.shuffle(arr)
        return arr

    def _uniform(self, shape):
        _, n = self._size(shape if shape else None)
        if self.script is not None:
            rec = self._scripted('uniform', (n,))
            u = np.array(rec['u'], dtype=float)
        else:
            u = self._gen().random(n)
        self._event('uniform', n=n, shape_key=(n,), u=u, policy='x')
        return u.reshape(shape) if shape else float(u[0])

    def rand(self, *shape):
        return self._uniform(tuple(shape))

    def random(self, size=None):
        shape, _ = self._size(size)
        return self._uniform(shape or ())

    random_sample = random

    def uniform(self, low=0.0, high=1.0, size=None):
        shape, _ = self._size(size)
        return low + (high - low) * self._uniform(shape or ())

    def randint(self, low, high=None, size=None):
        if high is None:
            low, high = 0, low
        shape, _ = self._size(size)
        u = self._uniform(shape or ())
        return np.floor(low + (high - low) * np.asarray(u)).astype(int) if shape else int(low + (high - low) * u)

    # ------------------------------------------------------------------ installation
    def summary(self):
        """hash-seed independent digest material for the event log."""
        out = []
        for ev in self.events:
            k = ev['kind']
            if k in ('normal', 'laplace'):
                out.append((k, ev['n'], ev['policy'], ev.get('eff_scale', ev['scale']),
                            None if ev['value'] is None else np.asarray(ev['value']).round(9).tolist()))
            elif k == 'choice':
                out.append((k, ev['n'], ev['m'], ev['policy'], np.asarray(ev['idx']).tolist()[:32]))
            else:
                out.append((k, ev['n']))
        return out

    @contextlib.contextmanager
    def installed(self):
        """Patch the np.random module functions; anything unmodelled is a trip-wire."""
        saved = {}
        for name in dir(np.random):
            obj = getattr(np.random, name)
            if name.startswith('_') or isinstance(obj, (type, types.ModuleType)):
                continue
            if name in ('default_rng', 'get_state', 'set_state', 'seed', 'get_bit_generator', 'set_bit_generator', 'test', 'bit_generator'):
                continue
            if not callable(obj):
                continue
            saved[name] = obj
            if name in _PATCHED:
                setattr(np.random, name, getattr(self, name))
            else:
                setattr(np.random, name, self._tripwire(name))
        try:
            yield self
        finally:
            for name, obj in saved.items():
                setattr(np.random, name, obj)

    def _tripwire(self, name):
        def trip(*a, **k):
            self._trip.append(name)
            raise HarnessError('unmodelled randomness: np.random.%s' % name)
        return trip
