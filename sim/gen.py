"""Seeded generators for domains, clique structures and potentials, plus structural shrinkers.

Everything is a function of the random.Random passed in; no sets are iterated, so the
generators add no hash-seed dependence of their own.
"""
import copy
import itertools

import numpy as np

_STEMS = ['a', 'b', 'c', 'd', 'e', 'f', 'g', 'h', 'age', 'sex', 'x', 'y', 'z', 'q', 'r', 's', 'u', 'v', 'w',
          'zip', 'inc', 'edu', 'A', 'B', 'C', 'D', 'E', 'F', 'n0', 'n1', 'k', 'm']


def gen_names(rnd, n):
    """attribute names drawn per run: permutes set iteration order inside one interpreter."""
    mode = rnd.randrange(4)
    if mode == 0:
        pool = list('abcdefghij')[:max(n, 1)]
        names = pool[:n]
        if rnd.random() < 0.5:
            rnd.shuffle(names)
        return names
    names = []
    while len(names) < n:
        s = rnd.choice(_STEMS)
        if mode >= 2:
            s = s + str(rnd.randrange(100))
        if s not in names:
            names.append(s)
    return names


def fresh(name):
    """an equal but distinct string object (names that reach the library from different sources - a parsed
    file, a formatted spec - are equal, not identical; single characters are interned by CPython anyway)."""
    return (name + '.')[:-1]


def fresh_cliques(cliques):
    return [tuple(fresh(a) for a in cl) for cl in cliques]


def gen_sizes(rnd, n, max_size=4, max_joint=4096, p_one=0.08):
    sizes = []
    for _ in range(n):
        if rnd.random() < p_one:
            sizes.append(1)
        else:
            sizes.append(rnd.randint(2, max_size))
    while int(np.prod(sizes)) > max_joint:
        i = rnd.randrange(n)
        if sizes[i] > 1:
            sizes[i] -= 1
    return sizes


def gen_cliques(rnd, attrs, kind=None, max_width=3):
    """input clique list; cliques name attributes in arbitrary order."""
    n = len(attrs)
    kinds = ['chain', 'star', 'cycle', 'random', 'disconnected', 'tree', 'dense', 'empty', 'singletons']
    weights = [3, 2, 3, 5, 2, 3, 2, 0.4, 0.6]
    if kind is None:
        kind = rnd.choices(kinds, weights)[0]
    idx = list(range(n))
    rnd.shuffle(idx)
    cl = []
    if kind == 'chain':
        w = rnd.randint(2, max(2, min(max_width, n)))
        step = rnd.randint(1, w - 1) if w > 1 else 1
        i = 0
        while i + 1 < n:
            cl.append(idx[i:i + w])
            i += step
    elif kind == 'star':
        c = idx[0]
        for j in idx[1:]:
            cl.append([c, j])
    elif kind == 'cycle':
        if n >= 3:
            k = rnd.randint(3, n)
            for i in range(k):
                cl.append([idx[i], idx[(i + 1) % k]])
            for j in idx[k:]:
                if rnd.random() < 0.6:
                    cl.append([j, idx[rnd.randrange(k)]])
        else:
            cl.append(idx[:2])
    elif kind == 'random':
        for _ in range(rnd.randint(1, n + 1)):
            w = rnd.randint(1, max(1, min(max_width, n)))
            cl.append(rnd.sample(idx, w))
    elif kind == 'disconnected':
        h = max(1, n // 2)
        for part in (idx[:h], idx[h:]):
            for i in range(len(part) - 1):
                if rnd.random() < 0.8:
                    cl.append([part[i], part[i + 1]])
    elif kind == 'tree':
        for i in range(1, n):
            cl.append([idx[i], idx[rnd.randrange(i)]])
    elif kind == 'dense':
        pairs = list(itertools.combinations(idx, 2))
        rnd.shuffle(pairs)
        cl = [list(p) for p in pairs[:rnd.randint(n, max(n, min(len(pairs), 2 * n)))]]
    elif kind == 'singletons':
        cl = [[i] for i in idx[:rnd.randint(1, n)]]
    cl = [c for c in cl if len(c) >= 1]
    # decorations: nested, duplicated, permuted attribute order
    if cl and rnd.random() < 0.3:
        c = rnd.choice(cl)
        if len(c) >= 2:
            cl.append(rnd.sample(c, len(c) - 1))
    if cl and rnd.random() < 0.25:
        c = list(rnd.choice(cl))
        rnd.shuffle(c)
        cl.append(c)
    for c in cl:
        if rnd.random() < 0.5:
            rnd.shuffle(c)
    rnd.shuffle(cl)
    return [[attrs[i] for i in c] for c in cl], kind


def gen_potential(rnd, shape, scale=1.0, ninf=0.0, witness=None, ints=False):
    """flat row-major list of log-potential values; cells consistent with `witness` stay finite."""
    n = int(np.prod(shape)) if len(shape) else 1
    vals = []
    for k in range(n):
        v = rnd.gauss(0.0, scale)
        if ints:
            v = float(round(v))
        vals.append(v)
    if ninf > 0 and n > 1:
        wflat = None
        if witness is not None:
            wflat = int(np.ravel_multi_index(tuple(witness), shape)) if len(shape) else 0
        for k in range(n):
            if k != wflat and rnd.random() < ninf:
                vals[k] = float('-inf')
    return vals


def clique_shape(case, cl):
    return [case['sizes'][case['attrs'].index(a)] for a in cl]


def pot_array(case, k):
    cl = case['cliques'][k]
    return np.array(case['pots'][k], dtype=float).reshape(clique_shape(case, cl))


# ------------------------------------------------------------------------------- structural shrinking
def _take(arr, axis, keep):
    return np.take(arr, list(range(keep)), axis=axis)


def drop_attr(case, a, clique_keys=('cliques',), pot_keys=(('cliques', 'pots'),)):
    """remove attribute a from the domain and from every clique (potentials sliced at index 0)."""
    c = copy.deepcopy(case)
    i = c['attrs'].index(a)
    for ck, pk in pot_keys:
        if pk in c and c[pk] is not None:
            new = []
            for k, cl in enumerate(case[ck]):
                arr = np.array(case[pk][k], dtype=float).reshape(clique_shape(case, cl))
                if a in cl:
                    arr = np.take(arr, 0, axis=list(cl).index(a))
                new.append(arr.reshape(-1).tolist())
            c[pk] = new
    for ck in clique_keys:
        c[ck] = [[x for x in cl if x != a] for cl in case[ck]]
    del c['attrs'][i]
    del c['sizes'][i]
    return c


def resize_attr(case, a, size, pot_keys=(('cliques', 'pots'),)):
    c = copy.deepcopy(case)
    i = c['attrs'].index(a)
    for ck, pk in pot_keys:
        if pk in c and c[pk] is not None:
            new = []
            for k, cl in enumerate(case[ck]):
                arr = np.array(case[pk][k], dtype=float).reshape(clique_shape(case, cl))
                if a in cl:
                    arr = _take(arr, list(cl).index(a), size)
                new.append(arr.reshape(-1).tolist())
            c[pk] = new
    c['sizes'][i] = size
    return c


def drop_index(case, key, k, also=()):
    c = copy.deepcopy(case)
    del c[key][k]
    for o in also:
        if o in c and c[o] is not None:
            del c[o][k]
    return c


def canon_names(case, keys_with_attr_lists=('cliques',), extra=None):
    """rename attributes to a, b, c... (keeps order)."""
    c = copy.deepcopy(case)
    m = {a: 'abcdefghijklmnop'[i] for i, a in enumerate(case['attrs'])}
    if all(m[a] == a for a in m):
        return None
    c['attrs'] = [m[a] for a in case['attrs']]
    for k in keys_with_attr_lists:
        if k in c and c[k] is not None:
            c[k] = [[m[x] for x in cl] for cl in case[k]]
    if extra:
        extra(c, m)
    return c
