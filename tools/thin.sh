#!/bin/bash
# re-run the sensitivity self-test for selected seeded changes under other VERIF_SEED values
cd "$(dirname "$0")/.."
for s in ${SEEDS:-1 2}; do for id in ${IDS:-C06-a C18-c C08-c C12-c C11-e C05-c C06-d C05-b C01-c C13-f C16-f C06-e}; do
  echo "VERIF_SEED=$s $(VERIF_SEED=$s bin/check selftest-sensitivity --only $id 2>&1 | grep "^selftest-sensitivity $id" | cut -c1-200)"
done; done
echo THINDONE
