#!/venv/bin/python
"""tools/keepseed.py ID PROP PATCH DEMO CHECKPROPS "what it needs to manifest"
Confirms the seeded change with tools/seedtest.py and stores it under /verif/seeded/ID/."""
import json, os, shutil, subprocess, sys
VERIF = os.path.dirname(os.path.dirname(os.path.abspath(__file__)))
sid, prop, patch, demo, checkprops, needs = sys.argv[1:7]
p = subprocess.run([os.path.join(VERIF, 'tools', 'seedtest.py'), patch, demo, checkprops], capture_output=True, text=True)
txt = p.stdout
res = json.loads(txt[txt.index('{'):])
ok = res.get('demo_clean_exit') == 0 and res.get('demo_patched_exit', 0) != 0 and res.get('tests_with_patch', '').startswith('32 passed')
d = os.path.join(VERIF, 'seeded', sid)
os.makedirs(d, exist_ok=True)
shutil.copy(patch, os.path.join(d, 'patch.diff'))
shutil.copy(demo, os.path.join(d, 'demo.py'))
meta = {'id': sid, 'breaks_property': prop, 'needs_to_manifest': needs, 'origin': 'independent sub-agent given only the property text and a scratch worktree',
        'confirmed': ok,
        'what_i_ran': ['scratch worktree of /repo HEAD under /tmp (removed afterwards)',
                       'demo.py on the clean worktree -> exit %s' % res.get('demo_clean_exit'),
                       'git apply patch.diff; pytest test -> %s' % res.get('tests_with_patch'),
                       'demo.py with the patch -> exit %s' % res.get('demo_patched_exit'),
                       'VERIF_REPO=<worktree> bin/check <prop> --tier quick for ' + checkprops],
        'detected_by': {k: (v['exit'] == 1) for k, v in res['checks'].items()},
        'check_output': res['checks']}
json.dump(meta, open(os.path.join(d, 'meta.json'), 'w'), indent=1)
print(sid, 'confirmed' if ok else 'NOT CONFIRMED', {k: v['exit'] for k, v in res['checks'].items()})
