#!/bin/bash
# tools/soak.sh TIER "SEEDS" [BUDGET_S]: every claimed check under several VERIF_SEED values; prints exit codes and any alarm.
# Meant for `vp run`; never writes evidence.
TIER=${1:-quick}; SEEDS=${2:-"1 2 3"}; B=${3:-}
cd "$(dirname "$0")/.."
for s in $SEEDS; do
  for p in ${PROPS:-C01 C12 C02 C11 C13 C08 C10 C16 C18 C20 C05 C06}; do
    if [ -n "$B" ]; then export VERIF_BUDGET_S=$B; fi
    out=$(VERIF_SEED=$s bin/check $p --tier $TIER --no-evidence 2>&1); rc=$?
    echo "seed=$s $p tier=$TIER exit=$rc $(echo "$out" | grep -E '^(C[0-9]+ (quick|thorough):)' | cut -c1-90)"
    if [ $rc -ne 0 ]; then echo "$out" | grep -E "VIOLATION|HARNESS|^  \[" | head -8; mkdir -p soak-replays; cp -r replays/$p soak-replays/$p-seed$s 2>/dev/null; fi
  done
done
echo SOAKDONE
