#!/venv/bin/python
"""Regenerates /verif/MANIFEST.json from the table below (kept valid against the schema)."""
import json
import os

HERE = os.path.dirname(os.path.dirname(os.path.abspath(__file__)))

NA = [
    ("C03", "global optimality of a deterministic solver is a pure function of (measurements, total, solver, iters); no schedule, randomness, call history, interruption or I/O to simulate; needs an independent convex solver (differential numerical testing), see DESIGN.md section 0"),
    ("C04", "loss/gradient/Lipschitz bound are pure functions of (measurements, marginals); nothing a simulator could own"),
    ("C07", "three scalar functions of two floats; no schedule, fault, history or randomness (engine D carries its own conversion as budget reference, so an inflated cdp_rho is caught under C05)"),
    ("C09", "total estimation is a pure function of the measurement list (one lsmr solve per measurement)"),
    ("C14", "factor algebra consists of pure array functions; no interleaving, randomness or history to control"),
    ("C15", "dataset vectorisation and domain algebra are pure functions of (records, weights, domain)"),
    ("C17", "the convex oracle's sweep computes all new messages from the previous sweep so order cannot matter, there is no randomness, and the unique optimum can only be judged against an independent convex solver"),
    ("C19", "deterministic entropic mirror descent on a fresh estimator; the quantifier is over inputs only"),
]

ENGINES = [
    dict(name="bp-sched", path="engines/a_bp.py", serves_properties=["C01", "C12"],
         kind_free_text="seeded scheduler over BP message orders, elimination orders (incl. RNG-driven int mode), attribute names and hash seeds; brute-force joint oracle; junction-tree axioms"),
    dict(name="query-hist", path="engines/b_query.py", serves_properties=["C02"],
         kind_free_text="generated query/cache/save-load histories on one model object against the explicit joint as reference model; in-memory fault-injecting file system"),
    dict(name="est-hist", path="engines/c_esthist.py", serves_properties=["C13", "C08", "C10"],
         kind_free_text="generated estimate-call histories on one estimator object (solvers, warm start, iteration counts, callback interrupts) against a fresh-estimator reference and coherence / zero-mass invariants"),
    dict(name="twin-mech", path="engines/d_twin.py", serves_properties=["C05", "C06"],
         kind_free_text="record/replay coupling of two mechanism executions on neighbouring datasets through the SimRNG seam; privacy ledger and event-trace equality"),
    dict(name="sampler", path="engines/e_sampler.py", serves_properties=["C11"],
         kind_free_text="synthetic_data under faithful and adversarial SimRNG outcomes; chain-rule identity at the seam and structural rounding bound"),
    dict(name="local-oracle", path="engines/f_local.py", serves_properties=["C16", "C18"],
         kind_free_text="warm-message call histories on region-graph / factor-graph oracles and LocalInference runs; brute-force oracle on acyclic structures"),
    dict(name="primitives", path="engines/g_prims.py", serves_properties=["C20"],
         kind_free_text="seam observation of the p= / scale= arguments each DP primitive hands to the PRNG"),
]

CHECKS = {
    "C01": dict(engine="bp-sched", ref="3 (Engine A)",
                technique="deterministic simulation: seeded message-schedule / elimination-order / hash-seed search against a brute-force joint",
                text="seeded exploration: thousands of (structure, potentials, total) cases, each run under several elimination orders (given, greedy, RNG-driven with adversarial outcomes), several seeded linear extensions of the message-dependency order installed in model.message_order, 4-16 interpreter hash seeds and a constant shift; every clique marginal and logZ is compared with a brute-force joint. Sampling, not proof.",
                note="trusts numpy float64 and the harness's brute-force joint (sim/refmodel.py); schedules are restricted to valid linear extensions (a negative control in the self-test shows an invalid one is detected)"),
    "C12": dict(engine="bp-sched", ref="3 (Engine A)",
                technique="deterministic simulation: seeded elimination-order / RNG-outcome / hash-seed search with junction-tree axioms as invariants",
                text="seeded exploration over clique sets up to 9 attributes and all three elimination-order modes (None, permutation, int with SimRNG outcomes incl. adversarial); every constructed tree is checked against the junction-tree axioms and the message schedule against the dependency order by independent code.",
                note="axioms implemented in sim/refmodel.py; sampling, not exhaustive enumeration"),
    "C11": dict(engine="sampler", ref="3 (Engine E)",
                technique="deterministic simulation: synthetic_data under simulator-chosen (faithful and adversarial) RNG outcomes; chain-rule identity at the seam, structural rounding bound",
                text="seeded exploration: random models with zero-probability cells, row counts 1..1e5 (1e6 thorough), both methods; the simulator decides every choice/shuffle outcome (faithful, lowest/highest-probability subsets, degenerate shuffles, all-records-in-rarest-cell). Row count, value ranges and zero support are checked on every run; sampling mode by the exact chain-rule identity over the recorded choice events; rounding mode by a rows-independent structural bound at one or two row counts.",
                note="adversarial outcomes restricted to positive-probability ones; bound derivation in DESIGN.md Engine E; reference joint by sim/refmodel.py"),
    "C13": dict(engine="est-hist", ref="3 (Engine C)",
                technique="deterministic simulation: generated estimate-call histories with callback-interrupt faults, refinement against a fresh-estimator reference model",
                text="seeded histories of estimate()/query operations on one estimator object (solvers MD/RDA/IG, varying measurement subsets, totals, iteration counts, callback interrupts injected inside the solver loop). Without warm start every returned model is compared with what a fresh estimator returns for that single call; every returned model's answers and parameters are digested at return time and re-checked bitwise after every later operation; caller inputs are compared bitwise before/after; a callback passed to one call must never be invoked by a later one; with warm start, warm and cold runs must reach the same loss in both directions (escalated before reporting).",
                note="eigsh start vector fixed by the harness; few iterations per call so that a leaked start point shows; totals kept consistent with the data; convergence clause uses the solver's own line search"),
    "C08": dict(engine="est-hist", ref="3 (Engine C)",
                technique="deterministic simulation: generated estimate-call histories (all solvers, iteration counts from 1, early exits, warm start, interrupts) with coherence invariants checked on every returned model",
                text="every model returned along a seeded history is checked: stored marginals == belief_propagation(stored parameters); every answer (a Kronecker query asked first, all cliques, full vector, random out-of-clique projections) finite, non-negative, sums to model.total and agrees with the full vector on shared attributes; estimate raises nothing; models are re-checked after synthetic_data was called on them and at the end of the history.",
                note="tolerance 1e-6 relative + 1e-8*total; known finding F8 (parameters beyond 1e9) carries its own signature"),
    "C10": dict(engine="est-hist", ref="3 (Engine C)",
                technique="deterministic simulation: generated estimate-call histories with structural zeros plus simulator-chosen RNG outcomes for synthetic records; zero-mass invariants after every step",
                text="estimators configured with structural zeros on measured cliques, sub-cliques and unmeasured attribute groups are driven through seeded histories (three solvers, cold and warm start, interrupts); for every returned model every declared cell must carry <= 1e-50*total in in-clique and out-of-clique answers and the full vector, nothing is NaN, everything sums to total, and synthetic_data under adversarial SimRNG outcomes puts no record in a declared cell; 5% of the runs drive AIM(structural_zeros=...) end to end and check its output the same way.",
                note="1e-50 threshold because RDA/IG refit parameters through log(mu+1e-100) by design"),
    "C20": dict(engine="primitives", ref="3 (Engine G)",
                technique="seam observation under the simulated PRNG (no schedule or fault: the fake PRNG is where the calibrated probabilities and scales are visible exactly); repeated-call histories on the caller's objects",
                text="every selection primitive (Mechanism.exponential_mechanism array/dict/base-measure, mst and adaptive_grid exponential_mechanism incl. monotonic and eps=inf, MWEM worst_approximated bounded/penalty) is called with the SimRNG on its prng seam; the p= vector it hands to choice() is compared in log space with the definition evaluated in extended precision, for score magnitudes up to 1e6, ties, constant shifts, dicts built in different insertion orders and 1-3 calls on the same caller arrays (which must stay unmodified); scale helpers and samplers are checked by the (loc, scale, size) they pass on.",
                note="least simulation-like check (DESIGN.md Engine G): the quantifier is over inputs and short call histories; autodp is stubbed (sentinel sigma)"),
    "C16": dict(engine="local-oracle", ref="3 (Engine F)",
                technique="deterministic simulation: call histories on one oracle object with warm messages, changing total and sweep counts, permuted GBP tie-order and hash seeds; brute-force oracle on acyclic structures",
                text="RegionGraph(convex=False) and FactorGraph(convex=False) objects are driven through 1-4 belief_propagation calls with unrelated potentials (messages persist), total reassigned between calls, sweep counts from 1 upward and the GBP sweep tie-order permuted inside equal-length blocks. After every call all pseudo-marginals must be finite, non-negative and sum to total; on junction-tree structured clique sets (GBP) and tree factor graphs (loopy BP) they must equal the brute-force marginals after enough sweeps, from cold and from warm messages.",
                note="finite potentials only; potentials on intersection regions are a separate signature (known finding F9)"),
    "C18": dict(engine="local-oracle", ref="3 (Engine F)",
                technique="deterministic simulation: LocalInference estimator-reuse histories over oracles and iteration counts that select restart / damping / post-iteration paths; validity invariants and closed-form optimum on disjoint cliques",
                text="LocalInference.estimate for oracles convex / approx / pairwise, 1-2 calls per estimator object (warm start on/off), iteration counts 1..300: no exception, every measured clique's table finite, non-negative and summing to total, the caller's total is the model's, loss no worse than the uniform start, primal feasibility < 1.0 with the convex oracle and overlapping measured tables disagreeing by at most edges x feasibility (triangle inequality along the region graph), and on pairwise-disjoint cliques the loss must reach the closed-form optimum (escalated x4, x16 before reporting).",
                note="three open known findings (F6, F10, F11) cover the no-worse-than-uniform, recursion and stall clauses on the unchanged tree; Q=None is not passed (LocalInference has no fix_measurements)"),
    "C05": dict(engine="twin-mech", ref="3 (Engine D)",
                technique="deterministic simulation: record/replay coupling of two mechanism executions on neighbouring datasets under simulator-chosen (faithful and adversarial) random outcomes; conservation invariant on a privacy ledger",
                text="MST, AIM, MWEM+PGM (Gaussian/Laplace, bounded/unbounded) and Adaptive Grid run end to end on small datasets; run A records every noise draw, release and selection under a seeded outcome policy (faithful, zero noise, outliers, blackout, all-supported, least-likely / repeated selections), run B replays those outcomes on a neighbouring dataset. Each release is charged by the actual change of its operand, each selection by the actual change of its probability vector, and the sum must stay within an independently computed budget rho_ref(eps, delta) (or eps for pure-DP MWEM).",
                note="ledger charges are lower bounds of the nominal costs, so a sound tree cannot alarm; inference iterations capped per run; autodp/hdmm stubbed; adaptive_grid needs a scipy shim (DESIGN.md 2.3); runs in which the mechanism raises (no output) are not charged"),
    "C06": dict(engine="twin-mech", ref="3 (Engine D)",
                technique="deterministic simulation: record/replay coupling of two mechanism executions on neighbouring datasets; event-trace and output equality checked while the replay proceeds",
                text="same twin runs as C05: the run on the neighbour must issue the same sequence of RNG events with the same shapes and bitwise-equal noise scales, consume the whole recorded trace, raise iff the recorded run raised, and return a dataframe identical to the recorded run's over the original domain.",
                note="a divergence is reported with its event index; replayed releases return the recorded value whatever the neighbour's operand is"),
    "C02": dict(engine="query-hist", ref="3 (Engine B)",
                technique="deterministic simulation: generated query/cache/save-load histories with I/O fault injection, refinement against the explicit joint",
                text="seeded histories of project / calculate_many_marginals / krondot / datavector / synthetic_data / parameter change followed by a bulk query / save+load on one model object (direct parameters or returned by estimate with MD, RDA or IG); after every operation the answer is compared with the explicit joint in the requested axis order; save/load goes through an in-memory file system that injects write errors, lost tails and read errors.",
                note="reference joint materialised on <= 4096 cells; |theta| <= 10; re-assigning potentials after caching is outside the quantifier and not generated"),
}


def build(claimed):
    checks = []
    for pid in claimed:
        c = CHECKS[pid]
        checks.append({
            "property_id": pid,
            "quick_cmd": "bin/check %s --tier quick" % pid,
            "thorough_cmd": "bin/check %s --tier thorough" % pid,
            "evidence_file": "/verif/evidence/%s.json" % pid,
            "replay_cmd_template": "bin/check %s --replay {path}" % pid,
            "engine": c["engine"],
            "level_claimed": {"category": "exploration", "text": c["text"], "design_ref": "DESIGN.md section " + c["ref"]},
            "level_note": c["note"],
            "technique": c["technique"],
        })
    served = set(claimed)
    return {
        "version": 1,
        "setup_cmd": "cd /verif && /venv/bin/python -c \"import numpy, scipy, pandas, networkx, disjoint_set\" && /venv/bin/python -m compileall -q sim engines bin/check >/dev/null",
        "hooks": {
            "guard": "PRIVATE_PGM_VERIF",
            "enable": "no source hooks are needed: every seam (np.random attributes, prng= parameters, model.message_order, mbi.graphical_model.open, mbi.inference.eigsh, the FactoredInference symbol in the mechanism modules) is patched from outside by /verif/sim; the guard name is reserved only",
            "baseline_off_cmd": "cd /repo && /venv/bin/python -m pytest -ra -q -p no:cacheprovider --timeout=900 --continue-on-collection-errors",
            "source_commits": [],
            "add_only": True,
        },
        "engines": [e for e in ENGINES if served & set(e["serves_properties"])],
        "checks": checks,
        "not_applicable": [{"property_id": p, "reason": r} for p, r in NA]
        + [{"property_id": p, "reason": "check not built yet (planned, see DESIGN.md)"} for p in sorted(set(PLANNED) - served)],
        "notes": "Deterministic simulation with fault injection (DESIGN.md). bin/check <ID> --tier quick|thorough; exit 0 held / 1 violation (VIOLATION lines) / 2 harness error. Known findings: known_findings.json.",
    }


PLANNED = ["C01", "C02", "C05", "C06", "C08", "C10", "C11", "C12", "C13", "C16", "C18", "C20"]

if __name__ == "__main__":
    import sys
    claimed = [p for p in PLANNED if p in CHECKS and os.path.exists(os.path.join(HERE, [e for e in ENGINES if p in e["serves_properties"]][0]["path"]))]
    m = build(claimed)
    with open(os.path.join(HERE, "MANIFEST.json"), "w") as f:
        json.dump(m, f, indent=1)
    print("claimed:", claimed)
