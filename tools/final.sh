#!/bin/bash
# long background sequence: quick soak under new seeds, thorough soak, full sensitivity self-test
cd "$(dirname "$0")/.."
tools/soak.sh quick "61 62 63 64 65 66"
tools/soak.sh thorough "303" 360
bin/check selftest-sensitivity
echo FINALDONE
