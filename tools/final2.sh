#!/bin/bash
# final sequence on the final code: full sensitivity self-test, then the determinism self-test
cd "$(dirname "$0")/.."
bin/check selftest-sensitivity
echo SENSDONE
bin/check selftest-determinism
echo FINALDONE
