#!/venv/bin/python
"""Confirm a seeded breaking change and run checks against it, in a scratch worktree of /repo.

usage: tools/seedtest.py PATCH DEMO PROP[,PROP...] [--tier quick] [--keep] [--skip-confirm]
  1. scratch worktree of /repo HEAD under /tmp (removed afterwards)
  2. DEMO passes on the clean worktree, the repository tests pass with PATCH applied, DEMO fails with PATCH applied
  3. bin/check PROP with VERIF_REPO=<worktree>: expect exit 1 and a VIOLATION line
Prints a JSON summary on the last line.
"""
import json
import os
import subprocess
import sys
import tempfile

VERIF = os.path.dirname(os.path.dirname(os.path.abspath(__file__)))


def sh(cmd, cwd=None, env=None, timeout=3600):
    p = subprocess.run(cmd, shell=True, cwd=cwd, env=env, capture_output=True, text=True, timeout=timeout)
    return p.returncode, p.stdout + p.stderr


def main():
    args = [a for a in sys.argv[1:] if not a.startswith('--')]
    flags = [a for a in sys.argv[1:] if a.startswith('--')]
    patch, demo, props = os.path.abspath(args[0]), args[1], args[2].split(',')
    tier = 'quick'
    for f in flags:
        if f.startswith('--tier='):
            tier = f.split('=')[1]
    wt = tempfile.mkdtemp(prefix='seedwt-', dir='/tmp')
    os.rmdir(wt)
    out = {'patch': patch, 'props': props}
    try:
        rc, o = sh('git -C /repo worktree add -q --detach %s HEAD' % wt)
        assert rc == 0, o
        env = dict(os.environ, PYTHONPATH='%s/src:%s' % (wt, wt))
        if demo != '-' and '--skip-confirm' not in flags:
            import shutil
            shutil.copy(os.path.abspath(demo), os.path.join(wt, '_demo.py'))     # sys.path[0] is the script's directory
            demo = '_demo.py'
            rc, o = sh('/venv/bin/python %s' % demo, cwd=wt, env=env)
            out['demo_clean_exit'] = rc
        rc, o = sh('git apply %s || git apply --3way %s' % (patch, patch), cwd=wt)
        out['apply'] = rc
        if rc != 0:
            out['apply_output'] = o[-800:]
            print(json.dumps(out))
            return 2
        if '--skip-confirm' not in flags:
            rc, o = sh('/venv/bin/python -m pytest -q -p no:cacheprovider --timeout=900 test 2>&1 | tail -1', cwd=wt, env=env)
            out['tests_with_patch'] = o.strip()
            if demo != '-':
                rc, o = sh('/venv/bin/python %s' % demo, cwd=wt, env=env)
                out['demo_patched_exit'] = rc
                out['demo_patched_tail'] = o.strip()[-300:]
        env2 = dict(os.environ, VERIF_REPO=wt)
        out['checks'] = {}
        for p in props:
            rc, o = sh('%s/bin/check %s --tier %s --no-evidence' % (VERIF, p, tier), cwd=VERIF, env=env2)
            lines = [ln for ln in o.splitlines() if ln.startswith('VIOLATION') or ln.startswith('  [')]
            out['checks'][p] = {'exit': rc, 'lines': lines[:8]}
            # keep the replay files of this run next to the seed for the record
    finally:
        if '--keep' not in flags:
            sh('git -C /repo worktree remove --force %s' % wt)
            sh('git -C /repo worktree prune')
    print(json.dumps(out, indent=1))
    return 0


if __name__ == '__main__':
    sys.exit(main())
