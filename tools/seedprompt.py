#!/venv/bin/python
"""tools/seedprompt.py PROP WORKTREE_DIR  -> prints the task text given to an independent sub-agent that is asked
for a seeded breaking change.  The text contains the property (from properties.jsonl), generic instructions and the
one-line descriptions of the changes already stored under /verif/seeded for that property (so that a new round asks for
different kinds and sites) - nothing about how /verif checks anything."""
import glob
import json
import os
import sys

VERIF = os.path.dirname(os.path.dirname(os.path.abspath(__file__)))
pid, d = sys.argv[1], sys.argv[2].rstrip('/')
props = {json.loads(l)['id']: json.loads(l) for l in open(os.path.join(VERIF, 'properties.jsonl'))}
p = props[pid]
prior = []
for f in sorted(glob.glob(os.path.join(VERIF, 'seeded', '*', 'meta.json'))):
    m = json.load(open(f))
    if m['breaks_property'] == pid:
        prior.append(m['needs_to_manifest'].split(':')[0][:140])

print(f"""You are working in a scratch git worktree of the open-source Python project ryan112358/private-pgm (Private-PGM: graphical-model inference from noisy marginals, plus differentially-private mechanisms) at {d}. Work ONLY inside {d}: do not read or touch /repo or /verif or any other directory under /tmp. There is no network; do not install anything.

How to run things: use /venv/bin/python, and ALWAYS set PYTHONPATH={d}/src:{d} so that the worktree's code is imported (the package `mbi` is in src/mbi, the mechanisms in mechanisms/). The existing test suite is run with
    cd {d} && PYTHONPATH={d}/src:{d} /venv/bin/python -m pytest -q -p no:cacheprovider test
At the unmodified baseline 32 tests pass and 12 are skipped (torch absent). (Packages autodp, hdmm, cvxopt, jax, torch are not installed; if you need to import mechanisms/aim.py or mechanisms/mechanism.py in a demo, stub them via sys.modules.)

Here is a semantic property of this code base that is supposed to hold:

  [{p['id']}] {p['title']}
  Statement: {p['statement']}
  Quantifier: {p['quantifier']['text']}
  Relevant files: {', '.join(p['anchors']['files'])}

YOUR TASK: produce TWO different, independent, realistic source changes (each relative to the clean HEAD) that BREAK this property while the code still imports and all 32 currently-passing tests still pass. Each should be the kind of bug a maintainer could plausibly introduce (refactoring slip, 'optimisation', caching, wrong variable, off-by-one, dropped guard, in-place update...), in the library/mechanism source (never in test/). IMPORTANT: each change must need something SPECIFIC to manifest - e.g. a particular order/interleaving, a multi-step sequence of calls on one object, an unusual-but-legal input or configuration, a rare random outcome, or two cooperating sites that each look fine alone - NOT something that ordinary single-call use with typical input would expose at once. Prefer subtle over blatant. The two changes should be of different kinds and touch different mechanisms in the code.

For each change k in (1, 2) deliver, inside {d}:
  - patch{{k}}.diff : `git diff` of the change relative to clean HEAD (apply-able with `git apply`)
  - demo{{k}}.py   : a small self-contained program INSIDE the worktree that exits with non-zero status (printing what went wrong) when the change is applied and exits 0 on the clean tree. Run it as: cd {d} && PYTHONPATH={d}/src:{d} /venv/bin/python demo{{k}}.py
  - verify yourself: on clean tree demo passes; with patch applied demo fails AND the 32 tests still pass.
Leave the worktree CLEAN at the end (git checkout -- . ; the patch/demo files are untracked and stay).

Finish with a short report: for each change, one paragraph saying what it breaks and exactly what it needs in order to manifest, plus the commands you ran to verify.
""")
if prior:
    print("IMPORTANT - earlier contributors already delivered the following changes for this property; yours must be of DIFFERENT kinds and at DIFFERENT code sites (do not repeat or vary these):")
    for x in prior:
        print("  - " + x)
    print("Be inventive: aim for changes whose trigger is a multi-step history on one object, an interleaving / ordering (message order, set/hash order, dict insertion order, order of a measurement list), a rare random outcome or an extreme-but-legal noise draw, a particular configuration combination, an interruption (a callback raising mid-optimisation, an I/O error during save/load), object identity vs equality, aliasing between an argument and internal state, stale caches, or cooperation between two sites.")
if pid in ('C05', 'C06'):
    print("\nEnvironment notes for the mechanisms (not part of the task): mechanisms/mst.py and mechanisms/mwem+pgm.py run as they are (load 'mwem+pgm.py' by path with importlib because of the '+'; MST hard-codes 5000+1000 inference iterations, so use tiny domains or monkeypatch FactoredInference iterations down). mechanisms/aim.py needs hdmm.matrix.Identity (stub it in sys.modules with a scipy LinearOperator identity) and autodp (stub). mechanisms/adaptive_grid.py raises AttributeError at `Q.T = sparse.csr_matrix(Q.T)` under the installed scipy 1.18 - known environment problem; monkeypatch around it or avoid adaptive_grid.")
if pid == 'C18':
    print("\nNotes (not part of the task): LocalInference.estimate needs a real query matrix in every measurement (scipy.sparse.eye(n) or numpy.eye(n); Q=None is not supported there). At baseline the estimator has no descent guarantee (fits after few iterations can be worse than uniform; runs can stall above the optimum; with warm_start=True a second call can hit RecursionError on overlapping cliques), so base your demos on other clauses.")
